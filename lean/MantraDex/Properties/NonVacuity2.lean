/-
  Non-vacuity, second part: the hypotheses of the property theorems added last (monitor soundness `MonSound` /
  `MonSoundB`, `C13Tx`, `C07Q`, `C17Tx`, `C03NoDrain`, `C19Y`) are SATISFIED by concrete, non-trivial states and
  accepted concrete transactions — an implication whose premises nothing satisfies proves nothing.

  Pattern (as in `NonVacuity.lean`): a small concrete `World`, a concrete transaction, `runTx … = .ok w'` obtained by
  kernel evaluation (`decide +kernel`) on the twin `NonVac2.runTxK2 = runTx` (the kernel cannot evaluate
  `String.splitOn`, see `Proofs/NonVacTwin.lean`, `Proofs/NonVac2Twin.lean`), every hypothesis of the theorem proved for
  the instance, and then the theorem APPLIED (`…_applies`).  The conclusions are instances, not new facts.

  1. `MonSound.monPmExcess_sound` (`monPmExcess_sound_applies`, `…_gift`, `…_odd`), `monWithdraw_sound`
     (`monWithdraw_sound_applies`), `monCpDeposit_sound_partial` (`monCpDeposit_sound_partial_applies`) — on the REACHED
     world `C01Exact.Cx.w2` (funded pool 100 000 / 100 000).
  2. `MonSoundB.monSwapReserves_sound`, `monSwapBank_sound` (`…_applies`; pool with protocol / swap / burn fee, five
     accounts), `monWithdrawPos_emergency_sound` (`…_applies`; closed, not yet unlocked position, one active farm of a
     third account, penalty 72 split 36 / 36).
  3. `C13Tx.provide_tx_within_tolerance`, `provide_tx_tolerance_monotone` (`…_applies`; 0.5 % off the pool ratio under
     1 % and 5 %; 2 % off is refused under 1 %: `tol1_refuses`).
  4. `C07Q.query_eq_claim_partial` (`query_eq_claim_partial_applies`; the state `NonVacuity.hist` reaches before its
     claim: 3 000 `uusdt`).
  5. `C17Tx.runTx_sim`, `tx_more_enabled_simulates`, `tx_rejected_only_by_switch` (`…_applies`; swaps of one pool off / on).
  6. `C03NoDrain.no_history_drains_pool` (`no_history_drains_pool_applies`; there-and-back swaps on a reached
     fee-charging pool).
  7. `C19.stableswap_y_within_one_of_root`, `stableswap_y_never_wrong` (`…_applies`; amp 100, 10^9 / 10^9, offer 10^6).
-/
import MantraDex.Model.System
import MantraDex.Properties.MonSound
import MantraDex.Properties.MonSoundB
import MantraDex.Properties.C13Tx
import MantraDex.Properties.C07Q
import MantraDex.Properties.C17Tx
import MantraDex.Properties.C03NoDrain
import MantraDex.Properties.C19Y
import MantraDex.Proofs.NonVac2Check
import MantraDex.Properties.NonVacuity
import MantraDex.Proofs.NonVac2Twin

set_option linter.unusedSimpArgs false
set_option linter.unusedVariables false

namespace MantraDex.NonVac2
open MantraDex

/-! ## 1. `MonSound`: deposit into / withdrawal from a funded two-asset constant-product pool

  The world is `C01Exact.Cx.w2`: REACHED from the deployment `cw FC FC []` by creating the pool `o.q` (`x` / `y`) and
  funding it with 100 000 / 100 000 (LP supply 100 000: 99 000 with `alice`, 1 000 locked with the pool manager); it
  satisfies `AllInv`, `FeeSmall`, `NoSelfPay` (`w2_allInv`, `w2_feeSmall`, `w2_noSelfPay`). -/

section MonSound
open MantraDex.C01Exact MantraDex.C01Exact.Cx

def lpQ : Denom := "factory/pm/o.q.LP"
/-- `alice` deposits 5 000 `x` + 7 000 `y` (not in pool proportion: the surplus `y` is a gift to the pool) -/
def depTx : Tx := .exec "alice" PM (.pm (.provideLiquidity none none none "o.q" none none)) [⟨"x",5000⟩,⟨"y",7000⟩]
/-- `alice` redeems 10 000 LP -/
def wdTx : Tx := .exec "alice" PM (.pm (.withdrawLiquidity "o.q")) [⟨lpQ, 10000⟩]
/-- `alice` donates 77 `x` to the pool manager by a plain transfer -/
def giftTx : Tx := .send "alice" PM [⟨"x", 77⟩]

theorem w2_pool : poolView w2 "o.q" = some (lpQ, [⟨"x",100000⟩,⟨"y",100000⟩], .cp) := by
  rw [w2_eq]; decide +kernel

theorem w2_bank : w2.bank.supply lpQ = 100000 ∧ w2.bank.bal PM lpQ = 1000 ∧ w2.bank.bal "alice" lpQ = 99000 ∧
    w2.bank.bal PM "x" = 100000 ∧ C01.reserves w2.pm "x" = 100000 ∧ w2.bank.bal "alice" "x" = 900000 ∧
    w2.bank.bal "alice" "y" = 900000 := by
  rw [w2_eq]; decide +kernel

theorem w2_covers : LpSys.Covers w2.bank := (C02Sys.covers_iff _).1 w2_allInv.supplyCovers

theorem dep_run : ∃ w', runTx w2 depTx none = .ok w' ∧
    (poolView w' "o.q", w'.bank.supply lpQ, w'.bank.bal PM lpQ, w'.bank.bal PM "x", C01.reserves w'.pm "x") =
      (some (lpQ, [⟨"x",105000⟩,⟨"y",107000⟩], .cp), 105000, 1000, 105000, 105000) :=
  of_eval (by rw [w2_eq]; decide +kernel)

theorem wd_run : ∃ w', runTx w2 wdTx none = .ok w' ∧
    (poolView w' "o.q", w'.bank.supply lpQ, w'.bank.bal "alice" "x", w'.bank.bal "alice" "y") =
      (some (lpQ, [⟨"x",90000⟩,⟨"y",90000⟩], .cp), 90000, 910000, 910000) :=
  of_eval (by rw [w2_eq]; decide +kernel)

theorem gift_run : ∃ w', runTx w2 giftTx none = .ok w' ∧
    (w'.bank.bal PM "x", C01.reserves w'.pm "x") = (100077, 100000) :=
  of_eval (by rw [w2_eq]; decide +kernel)

/-- `monPmExcess_sound` applies to the accepted deposit (balance and reserves of `x` both move from 100 000 to 105 000) -/
theorem monPmExcess_sound_applies :
    ∃ w', runTx w2 depTx none = .ok w' ∧ w'.bank.bal PM "x" = 105000 ∧ C01.reserves w'.pm "x" = 105000 ∧
      monPmExcess (w2.bank.bal PM "x") (C01.reserves w2.pm "x") (w'.bank.bal PM "x") (C01.reserves w'.pm "x")
        (donated depTx "x") (oddUnit depTx "x") = none := by
  obtain ⟨w', hr, hv⟩ := dep_run
  simp only [Prod.mk.injEq] at hv
  exact ⟨w', hr, hv.2.2.2.1, hv.2.2.2.2,
    MonSound.monPmExcess_sound w2 w' depTx none ⟨by decide, by decide⟩ w2_feeSmall w2_allInv w2_noSelfPay trivial hr "x"
      (plain _ (by decide +kernel))⟩

/-- … to an accepted donation (`donated = 77`: the excess really moves) -/
theorem monPmExcess_sound_applies_gift :
    ∃ w', runTx w2 giftTx none = .ok w' ∧ w'.bank.bal PM "x" = 100077 ∧ C01.reserves w'.pm "x" = 100000 ∧
      donated giftTx "x" = 77 ∧
      monPmExcess (w2.bank.bal PM "x") (C01.reserves w2.pm "x") (w'.bank.bal PM "x") (C01.reserves w'.pm "x")
        (donated giftTx "x") (oddUnit giftTx "x") = none := by
  obtain ⟨w', hr, hv⟩ := gift_run
  simp only [Prod.mk.injEq] at hv
  exact ⟨w', hr, hv.1, hv.2, by decide,
    MonSound.monPmExcess_sound w2 w' giftTx none ⟨by decide, by decide⟩ w2_feeSmall w2_allInv w2_noSelfPay trivial hr "x"
      (plain _ (by decide +kernel))⟩

/-- … and to the accepted single-asset deposit of 101 `x` of `C01Exact.Cx.oddUnit_instance` (`oddUnit = 1`) -/
theorem monPmExcess_sound_applies_odd :
    ∃ w', runTx w2 singleTx none = .ok w' ∧ oddUnit singleTx "x" = 1 ∧
      monPmExcess (w2.bank.bal PM "x") (C01.reserves w2.pm "x") (w'.bank.bal PM "x") (C01.reserves w'.pm "x")
        (donated singleTx "x") (oddUnit singleTx "x") = none := by
  obtain ⟨w', hr, _, _, ho⟩ := oddUnit_instance
  exact ⟨w', hr, ho,
    MonSound.monPmExcess_sound w2 w' singleTx none ⟨by decide, by decide⟩ w2_feeSmall w2_allInv w2_noSelfPay trivial hr "x"
      (plain _ (by decide +kernel))⟩

/-- `monWithdraw_sound` applies to the accepted withdrawal of 10 000 LP out of 100 000 (10 000 of each asset paid out) -/
theorem monWithdraw_sound_applies :
    ∃ w' pool pool', runTx w2 wdTx = .ok w' ∧ w2.pm.getPool "o.q" = .ok pool ∧ w'.pm.getPool "o.q" = .ok pool' ∧
      pool.lpDenom = lpQ ∧ pool.assets = [⟨"x",100000⟩,⟨"y",100000⟩] ∧ pool'.assets = [⟨"x",90000⟩,⟨"y",90000⟩] ∧
      w2.bank.supply lpQ = 100000 ∧ w'.bank.bal "alice" "x" = w2.bank.bal "alice" "x" + 10000 ∧
      monWithdraw 10000 (w2.bank.supply pool.lpDenom)
        (pool.assets.map fun a =>
          (a.amount, a.amount - C01.coinsOf pool'.assets a.denom,
            w'.bank.bal "alice" a.denom - w2.bank.bal "alice" a.denom)) = none := by
  obtain ⟨w', hr, hv⟩ := wd_run
  simp only [Prod.mk.injEq] at hv
  obtain ⟨hpv', hs', hbx, hby⟩ := hv
  obtain ⟨pool, hp, hlp, has, hpt⟩ := poolView_some w2_pool
  obtain ⟨pool', hp', hlp', has', hpt'⟩ := poolView_some hpv'
  refine ⟨w', pool, pool', hr, hp, hp', hlp, has, has', w2_bank.1, by rw [hbx, w2_bank.2.2.2.2.2.1], ?_⟩
  refine MonSound.monWithdraw_sound w2 w' "alice" "o.q" [⟨lpQ, 10000⟩] pool pool' 10000 w2_covers (by decide) hp hp'
    (by rw [hlp]) ?_ ?_ hr
  · rw [has, hlp]; decide
  · rw [has]; decide

/-- `monCpDeposit_sound_partial` applies to the accepted deposit of 5 000 `x` + 7 000 `y` (5 000 LP minted) -/
theorem monCpDeposit_sound_partial_applies :
    ∃ w' pool pool', runTx w2 depTx = .ok w' ∧ w2.pm.getPool "o.q" = .ok pool ∧ w'.pm.getPool "o.q" = .ok pool' ∧
      pool.lpDenom = lpQ ∧ w2.bank.supply lpQ = 100000 ∧ w'.bank.supply lpQ = 105000 ∧
      monCpDeposit 100000 100000 5000 7000 (w2.bank.supply pool.lpDenom)
        (w'.bank.supply pool.lpDenom - w2.bank.supply pool.lpDenom)
        (w'.bank.bal PM pool.lpDenom - w2.bank.bal PM pool.lpDenom) 105000 107000 = none := by
  obtain ⟨w', hr, hv⟩ := dep_run
  simp only [Prod.mk.injEq] at hv
  obtain ⟨hpv', hs', -, -, -⟩ := hv
  obtain ⟨pool, hp, hlp, has, hpt⟩ := poolView_some w2_pool
  obtain ⟨pool', hp', hlp', has', hpt'⟩ := poolView_some hpv'
  refine ⟨w', pool, pool', hr, hp, hp', hlp, w2_bank.1, hs', ?_⟩
  exact MonSound.monCpDeposit_sound_partial w2 w' "alice" none none none "o.q" pool pool' "x" "y"
    100000 100000 5000 7000 105000 107000 w2_covers hp hp' hpt has has' (by decide)
    (by rw [hlp, w2_bank.1]; decide) (by rw [hlp]; decide) (by rw [hlp]; decide) (by decide) (by decide) hr

end MonSound

/-! ## shared: a small deployment with given bank, pools, farm-manager state and clock -/

def own : Ownership := { owner := some "o" }
def lpP : Denom := "factory/pm/p.LP"
/-- farm-manager configuration: emergency penalty 10 % -/
def fmCfg : FmConfig := ⟨FC, EM, PM, ⟨"uom", 0⟩, 2, 14, 86400, 31556926, 2629746, 100000000000000000⟩
def mkWorld (bal : Addr → Denom → Nat) (supply : Denom → Nat) (pools : List PoolInfo) (fm : FmState) (nowNs : Nat) :
    World :=
  { bank := { bal := bal, supply := supply },
    pm := { config := ⟨FC, FM, ⟨"uom", 0⟩⟩, pools := pools, owner := own },
    fm := fm, em := { cfg := ⟨86400, 0⟩, owner := own }, fc := own, nowNs := nowNs, tfFees := [],
    validAddr := fun _ => true }

/-! ## 2. `MonSoundB`: a swap on a fee-charging pool, an emergency withdrawal of a closed position -/

section MonSoundB

/-- constant-product pool `x` / `y`, reserves 1 000 000 / 2 000 000, protocol fee 0.2 %, swap fee 0.3 %, burn fee 0.1 % -/
def poolF : PoolInfo := { id := "p", denoms := ["x","y"], lpDenom := lpP, decimals := [6,6], assets := [⟨"x",1000000⟩,⟨"y",2000000⟩], ptype := .cp, fees := ⟨2000000000000000, 3000000000000000, 1000000000000000, []⟩, status := {} }

/-- `alice` holds 50 000 `x`, the pool manager the reserves, a bystander `carol` 7 of each; `bob` and the fee collector nothing -/
def wS : World := mkWorld
  (fun a d => if a = "alice" ∧ d = "x" then 50000 else if a = PM ∧ d = "x" then 1000000
    else if a = PM ∧ d = "y" then 2000000 else if a = "carol" ∧ (d = "x" ∨ d = "y") then 7 else 0)
  (fun d => if d = "x" then 1050007 else if d = "y" then 2000007 else if d = lpP then 1414213 else 0)
  [poolF] { config := fmCfg, owner := own } 0

def offerS : Coin := ⟨"x", 10000⟩
/-- `alice` swaps 10 000 `x` for `y`, proceeds to `bob`, at most 5 % slippage -/
def swTx : Tx := .exec "alice" PM (.pm (.swap "y" none (some 50000000000000000) (some "bob") "p")) [offerS]

/-- the swap computation: 19 684 `y` returned, protocol fee 39, burn fee 19 (swap fee 59 stays in the pool) -/
theorem sw_ps : ∃ s1 r, performSwap wS.pm offerS "y" "p" none (some 50000000000000000) = .ok (s1, r) ∧
    r.ret.amount = 19684 ∧ r.protocolFee.amount = 39 ∧ r.burnFee.amount = 19 ∧ r.swapFee.amount = 59 := by
  have h : ((performSwap wS.pm offerS "y" "p" none (some 50000000000000000)).toOption.map fun p =>
      (p.2.ret.amount, p.2.protocolFee.amount, p.2.burnFee.amount, p.2.swapFee.amount)) = some (19684, 39, 19, 59) := by
    decide +kernel
  cases hps : performSwap wS.pm offerS "y" "p" none (some 50000000000000000) with
  | error e => rw [hps] at h; cases h
  | ok p =>
    rw [hps] at h
    simp only [Except.toOption, Option.map_some, Option.some.injEq, Prod.mk.injEq] at h
    exact ⟨p.1, p.2, rfl, h⟩

theorem sw_run : ∃ w', runTx wS swTx none = .ok w' ∧
    (poolView w' "p", [w'.bank.bal "alice" "x", w'.bank.bal "bob" "y", w'.bank.bal "bob" "x", w'.bank.bal FC "y",
      w'.bank.bal PM "x", w'.bank.bal PM "y", w'.bank.supply "y"]) =
    (some (lpP, [⟨"x",1010000⟩,⟨"y",1980258⟩], .cp), [40000, 19684, 0, 39, 1010000, 1980258, 1999988]) :=
  of_eval (by decide +kernel)

/-- `monSwapReserves_sound` applies to the accepted swap -/
theorem monSwapReserves_sound_applies :
    ∃ w' s1 r pool pool', runTx wS swTx = .ok w' ∧
      performSwap wS.pm offerS "y" "p" none (some 50000000000000000) = .ok (s1, r) ∧
      wS.pm.getPool "p" = .ok pool ∧ w'.pm.getPool "p" = .ok pool' ∧ pool.ptype = .cp ∧
      r.ret.amount = 19684 ∧ r.protocolFee.amount = 39 ∧ r.burnFee.amount = 19 ∧
      monSwapReserves (pool.ptype == .cp) 1000000 2000000 offerS.amount 1010000 1980258
        r.ret.amount r.protocolFee.amount r.burnFee.amount = none := by
  obtain ⟨w', hr, hv⟩ := sw_run
  simp only [Prod.mk.injEq, List.cons.injEq, and_true] at hv
  obtain ⟨s1, r, hps, h1, h2, h3, -⟩ := sw_ps
  obtain ⟨pool', hp', -, has', -⟩ := poolView_some hv.1
  refine ⟨w', s1, r, poolF, pool', hr, hps, rfl, hp', rfl, h1, h2, h3, ?_⟩
  exact MonSoundB.monSwapReserves_sound wS w' "alice" offerS "y" none (some 50000000000000000) (some "bob") "p"
    poolF pool' 1000000 2000000 1010000 1980258 s1 r (by decide) rfl hp' (by decide) (Or.inl rfl) (Or.inl has') hps hr

/-- `monSwapBank_sound` applies: sender `alice`, receiver `bob`, fee collector `fc`, pool manager `pm` are four different
    accounts, `carol` is a fifth -/
theorem monSwapBank_sound_applies :
    ∃ w' s1 r, runTx wS swTx = .ok w' ∧
      performSwap wS.pm offerS "y" "p" none (some 50000000000000000) = .ok (s1, r) ∧
      r.ret.amount = 19684 ∧ r.protocolFee.amount = 39 ∧ r.burnFee.amount = 19 ∧
      w'.bank.bal "bob" "y" = 19684 ∧ w'.bank.bal FC "y" = 39 ∧ w'.bank.supply "y" + 19 = wS.bank.supply "y" ∧
      monSwapBank offerS.amount r.ret.amount r.protocolFee.amount r.burnFee.amount
        ((wS.bank.bal "alice" offerS.denom : Int) - w'.bank.bal "alice" offerS.denom)
        ((w'.bank.bal "bob" "y" : Int) - wS.bank.bal "bob" "y")
        ((w'.bank.bal "bob" offerS.denom : Int) - wS.bank.bal "bob" offerS.denom)
        ((w'.bank.bal wS.pm.config.feeCollector "y" : Int) - wS.bank.bal wS.pm.config.feeCollector "y")
        ((w'.bank.bal PM offerS.denom : Int) - wS.bank.bal PM offerS.denom)
        ((wS.bank.bal PM "y" : Int) - w'.bank.bal PM "y")
        (((w'.bank.bal "carol" "y" : Int) - wS.bank.bal "carol" "y") +
          ((w'.bank.bal "carol" offerS.denom : Int) - wS.bank.bal "carol" offerS.denom)) = none := by
  obtain ⟨w', hr, hv⟩ := sw_run
  simp only [Prod.mk.injEq, List.cons.injEq, and_true] at hv
  obtain ⟨-, -, hb, -, hf, -, -, hs⟩ := hv
  obtain ⟨s1, r, hps, h1, h2, h3, -⟩ := sw_ps
  refine ⟨w', s1, r, hr, hps, h1, h2, h3, hb, hf, by rw [hs]; decide, ?_⟩
  exact MonSoundB.monSwapBank_sound wS w' "alice" "bob" offerS "y" none (some 50000000000000000) "p" s1 r "carol"
    (by decide) (by decide) rfl (by decide) (by decide) hps hr

/-- `alice`'s position of 1 000 LP: closed, unlocks on day 12 -/
def posA : Position := ⟨"u-a", lpP, 1000, 86400 * 10, false, some (86400 * 12), "alice"⟩
/-- one farm on that LP token, owned by a third account `olga`, running in epochs 1 … 10 -/
def farmO : Farm := ⟨"f-1", "olga", lpP, "uom", 10000, 0, 1000, 1, 11⟩
/-- day 5 (epoch 5): the position is not yet unlocked, the farm is active; the farm manager holds the 1 000 LP -/
def wE : World := mkWorld
  (fun a d => if a = FM ∧ d = lpP then 1000 else if a = FM ∧ d = "uom" then 10000 else 0)
  (fun d => if d = lpP then 1000 else if d = "uom" then 10000 else 0) []
  { config := fmCfg, positions := [posA], farms := [farmO], owner := own } (86400 * 5 * NANOS)
def emTx : Tx := .exec "alice" FM (.fm (.withdrawPosition posA.id (some true))) []

theorem em_active : C09Sys.activeFarms wE.fm wE.fmEnv posA.lpDenom = .ok [farmO] := by decide +kernel

/-- the emergency exit is accepted: 928 LP to `alice`, penalty 72 = 36 to the fee collector + 36 to the farm owner -/
theorem em_run : ∃ w', runTx wE emTx none = .ok w' ∧
    (w'.bank.bal "alice" lpP, w'.bank.bal FC lpP, w'.bank.bal "olga" lpP, w'.bank.bal FM lpP,
      (w'.fm.getPosition "u-a").isNone) = (928, 36, 36, 0, true) :=
  of_eval (by decide +kernel)

/-- `monWithdrawPos_emergency_sound` applies -/
theorem monWithdrawPos_emergency_sound_applies :
    ∃ w', runTx wE emTx = .ok w' ∧ w'.bank.bal "alice" lpP = 928 ∧ w'.bank.bal FC lpP = 36 ∧
      w'.bank.bal "olga" lpP = 36 ∧
      monWithdrawPos posA.amount
        ((w'.bank.bal "alice" posA.lpDenom : Int) - wE.bank.bal "alice" posA.lpDenom)
        ((w'.bank.bal wE.fm.config.feeCollector posA.lpDenom : Int) - wE.bank.bal wE.fm.config.feeCollector posA.lpDenom)
        (((uniqueOwners [farmO]).map fun a => (w'.bank.bal a posA.lpDenom : Int) - wE.bank.bal a posA.lpDenom).foldl
          (· + ·) 0)
        ((wE.bank.bal FM posA.lpDenom : Int) - w'.bank.bal FM posA.lpDenom)
        true (w'.fm.getPosition posA.id).isNone = none := by
  obtain ⟨w', hr, hv⟩ := em_run
  simp only [Prod.mk.injEq] at hv
  refine ⟨w', hr, hv.1, hv.2.1, hv.2.2.1, ?_⟩
  exact MonSoundB.monWithdrawPos_emergency_sound wE w' "alice" posA (by decide) (by decide) [farmO] em_active
    (by decide +kernel) (C09Sys.uniqueOwners_nodup _) hr

end MonSoundB

/-! ## 3. `C13Tx`: a slightly unbalanced two-sided deposit under a slippage tolerance of 1 % and of 5 %

  Again on the reached world `C01Exact.Cx.w2` (pool `o.q`, reserves 100 000 / 100 000). -/

section C13Tx
open MantraDex.C01Exact.Cx

def tol1 : Nat := 10000000000000000
def tol5 : Nat := 50000000000000000
/-- `alice` deposits 10 000 `x` + 10 050 `y` (0.5 % off the pool ratio) with liquidity-slippage tolerance `tol` -/
def tolTx (tol : Nat) : Tx :=
  .exec "alice" PM (.pm (.provideLiquidity (some tol) none none "o.q" none none)) [⟨"x",10000⟩,⟨"y",10050⟩]

theorem tol1_run : ∃ w', runTx w2 (tolTx tol1) none = .ok w' ∧
    (poolView w' "o.q", w'.bank.supply lpQ) = (some (lpQ, [⟨"x",110000⟩,⟨"y",110050⟩], .cp), 110000) :=
  of_eval (by rw [w2_eq]; decide +kernel)

/-- the same deposit 2 % off the pool ratio is REFUSED under 1 % (the check is not idle) -/
theorem tol1_refuses :
    runTx w2 (.exec "alice" PM (.pm (.provideLiquidity (some tol1) none none "o.q" none none)) [⟨"x",10000⟩,⟨"y",10200⟩])
      none = .error .slippage :=
  refused_of_eval (by rw [w2_eq]; decide +kernel)

/-- `provide_tx_within_tolerance` applies to the deposit accepted under 1 % -/
theorem provide_tx_within_tolerance_applies :
    ∃ w', runTx w2 (tolTx tol1) none = .ok w' ∧ w'.bank.supply lpQ = 110000 ∧
      tol1 ≤ ONE18 ∧ C13Tx.withinTolerance tol1 10000 10050 100000 100000 := by
  obtain ⟨w', hr, hv⟩ := tol1_run
  simp only [Prod.mk.injEq] at hv
  obtain ⟨pool, hp, hlp, has, hpt⟩ := poolView_some w2_pool
  exact ⟨w', hr, hv.2,
    C13Tx.provide_tx_within_tolerance w2 w' "alice" tol1 none none "o.q" pool "x" "y" 10000 10050 100000 100000 none
      hp hpt has (by decide) (by rw [hlp, w2_bank.1]; decide) (by decide) (by decide) hr⟩

/-- `provide_tx_tolerance_monotone` applies: accepted under 1 % ⇒ accepted under 5 % with the same result; and
    `provide_tx_within_tolerance` applies to that run under 5 % as well -/
theorem provide_tx_tolerance_monotone_applies :
    ∃ w', runTx w2 (tolTx tol1) none = .ok w' ∧ runTx w2 (tolTx tol5) none = .ok w' ∧ w'.bank.supply lpQ = 110000 ∧
      C13Tx.withinTolerance tol5 10000 10050 100000 100000 := by
  obtain ⟨w', hr, hv⟩ := tol1_run
  simp only [Prod.mk.injEq] at hv
  obtain ⟨pool, hp, hlp, has, hpt⟩ := poolView_some w2_pool
  have h5 : runTx w2 (tolTx tol5) none = .ok w' :=
    C13Tx.provide_tx_tolerance_monotone w2 w' "alice" tol1 tol5 none none "o.q" [⟨"x",10000⟩,⟨"y",10050⟩] none none none
      (by decide) (by decide) (by decide) pool hp hpt hr
  exact ⟨w', hr, h5, hv.2,
    (C13Tx.provide_tx_within_tolerance w2 w' "alice" tol5 none none "o.q" pool "x" "y" 10000 10050 100000 100000 none
      hp hpt has (by decide) (by rw [hlp, w2_bank.1]; decide) (by decide) (by decide) h5).2⟩

end C13Tx

/-! ## 4. `C07Q`: the Rewards query and an accepted claim on a REACHED farm-manager state

  The state is the one the history of `NonVacuity.lean` reaches just before its last transaction (the claim): pool
  created and funded, `u2` has locked 400 000 LP, `u3` has created a farm of 14 000 `uusdt` over 14 epochs, three days
  have passed.  The claim pays 3 000 `uusdt`. -/

section C07Q

def hist6 : List (Tx × Option Nat) := NonVacuity.hist.take 6
def w6 : World := hist6.foldl (fun w t => step w t.1 t.2) NonVacuity.w0
def w6K : World := hist6.foldl (fun w t => NonVac.stepK w t.1 t.2) NonVacuity.w0
theorem w6_eq : w6 = w6K := by unfold w6 w6K; rw [NonVac.stepK_eq]

theorem w6_claim : ∃ s' r, fmClaim w6.fm w6.fmEnv "u2" [] none = .ok (s', r) ∧
    r.msgs.map (fun m => C07Q.sentCoins m.msg) = [[⟨"uusdt", 3000⟩]] := by
  have h : (fmClaim w6.fm w6.fmEnv "u2" [] none).toOption.map
      (fun p => p.2.msgs.map (fun m => C07Q.sentCoins m.msg)) = some [[⟨"uusdt", 3000⟩]] := by
    rw [w6_eq]; decide +kernel
  cases hc : fmClaim w6.fm w6.fmEnv "u2" [] none with
  | error e => rw [hc] at h; cases h
  | ok p =>
    rw [hc] at h
    simp only [Except.toOption, Option.map_some, Option.some.injEq] at h
    exact ⟨p.1, p.2, rfl, h⟩

theorem w6_state : w6.fm.positions.length = 1 ∧ w6.fm.farms.map (·.id) = ["m-farm"] ∧
    w6.fm.farms.map (·.emissionRate) = [1000] ∧ w6.fmEnv.validAddr "u2" = true := by
  rw [w6_eq]; decide +kernel

/-- `query_eq_claim_partial` applies: the query answers exactly the 3 000 `uusdt` the claim sends -/
theorem query_eq_claim_partial_applies :
    ∃ s' r, fmClaim w6.fm w6.fmEnv "u2" [] none = .ok (s', r) ∧
      queryRewards w6.fm w6.fmEnv "u2" none = .ok [⟨"uusdt", 3000⟩] ∧
      r.msgs.map (·.msg) = [Msg.bankSend "u2" [⟨"uusdt", 3000⟩]] := by
  obtain ⟨s', r, hc, hm⟩ := w6_claim
  have hn : (w6.fm.farms.map (·.id)).Nodup := by rw [w6_state.2.1]; decide
  obtain ⟨coins, hq, hmsgs⟩ := C07Q.query_eq_claim_partial hn w6_state.2.2.2 hc
  have e : r.msgs.map (fun m => C07Q.sentCoins m.msg) = (r.msgs.map (·.msg)).map C07Q.sentCoins := by
    rw [List.map_map]; rfl
  rw [e, hmsgs] at hm
  cases hcoins : coins with
  | nil => rw [hcoins] at hm; cases hm
  | cons c cs =>
    rw [hcoins] at hm hq hmsgs
    simp only [List.isEmpty_cons, Bool.false_eq_true, if_false, List.map_cons, List.map_nil, C07Q.sentCoins,
      List.cons.injEq, and_true] at hm
    obtain ⟨rfl, rfl⟩ := hm
    exact ⟨s', r, hc, hq, hmsgs⟩

end C07Q

/-! ## 5. `C17Tx`: two worlds that differ in one pool's swap switch -/

section C17Tx

/-- a second pool `q` (`y` / `z`), untouched -/
def poolG : PoolInfo := { id := "q", denoms := ["y","z"], lpDenom := "factory/pm/q.LP", decimals := [6,6], assets := [⟨"y",500000⟩,⟨"z",500000⟩], ptype := .cp, fees := ⟨0, 1000000000000000, 0, []⟩, status := {} }

/-- the fee-charging pool `p` of section 2 with switches `st`, and pool `q`; `alice` holds 50 000 `x` and 50 000 `y` -/
def wSw (st : PoolStatus) : World := mkWorld
  (fun a d => if a = "alice" ∧ (d = "x" ∨ d = "y") then 50000 else if a = PM ∧ d = "x" then 1000000
    else if a = PM ∧ d = "y" then 2500000 else if a = PM ∧ d = "z" then 500000 else 0)
  (fun d => if d = "x" then 1050000 else if d = "y" then 2550000 else if d = "z" then 500000
    else if d = lpP then 1414213 else if d = "factory/pm/q.LP" then 500000 else 0)
  [{ poolF with status := st }, poolG] { config := fmCfg, owner := own } 0

/-- swaps on `p` switched off -/
def wOff : World := wSw ⟨false, true, true⟩
/-- everything on -/
def wOn : World := wSw {}

theorem off_on_rel : C17Tx.WorldRel wOff wOn := by
  refine ⟨rfl, rfl, rfl, rfl, rfl, rfl, rfl, rfl, rfl, rfl, rfl, ?_⟩
  refine .cons ⟨rfl, ?_⟩ (.cons ⟨rfl, ?_⟩ .nil) <;> unfold C17NI.FlagsLe <;> decide

/-- the two worlds really differ, and only there -/
theorem off_on_differ : (wOff.pm.pools.map (·.status.swaps)) = [false, true] ∧ (wOn.pm.pools.map (·.status.swaps)) = [true, true] := by
  decide

/-- `alice` deposits 1 000 `x` + 2 000 `y` into `p` -/
def swDepTx : Tx := .exec "alice" PM (.pm (.provideLiquidity none none none "p" none none)) [⟨"x",1000⟩,⟨"y",2000⟩]

theorem off_dep_run : ∃ w', runTx wOff swDepTx none = .ok w' ∧
    (poolView w' "p", w'.bank.supply lpP, w'.bank.bal "alice" lpP) =
      (some (lpP, [⟨"x",1001000⟩,⟨"y",2002000⟩], .cp), 1415627, 1414) :=
  of_eval (by decide +kernel)

/-- `tx_more_enabled_simulates` applies: the deposit accepted while swaps are off is accepted with swaps on, with
    related results -/
theorem tx_more_enabled_simulates_applies :
    ∃ w1' w2', runTx wOff swDepTx none = .ok w1' ∧ runTx wOn swDepTx none = .ok w2' ∧ C17Tx.WorldRel w1' w2' ∧
      w2'.bank.bal "alice" lpP = 1414 := by
  obtain ⟨w1', hr, hv⟩ := off_dep_run
  simp only [Prod.mk.injEq] at hv
  obtain ⟨w2', hr2, hrel⟩ := C17Tx.tx_more_enabled_simulates off_on_rel hr
  exact ⟨w1', w2', hr, hr2, hrel, by rw [hrel.1]; exact hv.2.2⟩

/-- `runTx_sim` on the same pair for a SWAP on `p`: the less enabled world refuses as `disabled`, the other accepts
    (so `tx_rejected_only_by_switch` applies as well) -/
theorem runTx_sim_applies :
    Switch.Sim C17Tx.WorldRel (runTx wOff swTx none) (runTx wOn swTx none) ∧
    runTx wOff swTx none = .error .disabled ∧ (∃ w2', runTx wOn swTx none = .ok w2' ∧ w2'.bank.bal "bob" "y" = 19684) ∧
    Switch.Sim C17Tx.WorldRel (runTx wOff swDepTx none) (runTx wOn swDepTx none) := by
  have h1 : runTx wOff swTx none = .error .disabled := refused_of_eval (by decide +kernel)
  have h2 : ∃ w2', runTx wOn swTx none = .ok w2' ∧ w2'.bank.bal "bob" "y" = 19684 := of_eval (by decide +kernel)
  refine ⟨C17Tx.runTx_sim off_on_rel swTx none, h1, h2, C17Tx.runTx_sim off_on_rel swDepTx none⟩

theorem tx_rejected_only_by_switch_applies : ∃ e, runTx wOff swTx none = .error e ∧ e = .disabled := by
  obtain ⟨w2', h2, -⟩ := runTx_sim_applies.2.2.1
  cases h1 : runTx wOff swTx none with
  | ok w => rw [runTx_sim_applies.2.1] at h1; cases h1
  | error e => exact ⟨e, rfl, C17Tx.tx_rejected_only_by_switch off_on_rel h2 h1⟩

end C17Tx

/-! ## 6. `C03NoDrain`: a there-and-back history of two swaps on a reached, funded, fee-charging pool

  Start world `wF`: REACHED from the deployment `C01Exact.Cx.cw FC FC []` by creating the pool `o.f` (`x` / `y`, protocol
  fee 0.2 %, swap fee 0.3 %, burn fee 0.1 %) and funding it with 100 000 / 200 000 (LP supply 141 421).  History: `alice`
  swaps 5 000 `x` into 9 467 `y` and swaps those 9 467 `y` back (she gets 4 943 `x`: the round trip costs her 57 `x`). -/

section C03NoDrain
open MantraDex.C01Exact.Cx

def feesF : PoolFee := ⟨2000000000000000, 3000000000000000, 1000000000000000, []⟩
def lpF : Denom := "factory/pm/o.f.LP"
def histF : List (Tx × Option Nat) := [
  (.exec "alice" PM (.pm (.createPool ["x","y"] [6,6] feesF .cp (some "f"))) [⟨"uom",15⟩], none),
  (.exec "alice" PM (.pm (.provideLiquidity none none none "o.f" none none)) [⟨"x",100000⟩,⟨"y",200000⟩], none)]
def wF : World := histF.foldl (fun w t => step w t.1 t.2) (cw FC FC [])
def poolFF : PoolInfo := { id := "o.f", denoms := ["x","y"], lpDenom := lpF, decimals := [6,6], assets := [⟨"x",100000⟩,⟨"y",200000⟩], ptype := .cp, fees := feesF, status := {} }
def swaps : List (Tx × Option Nat) := [
  (.exec "alice" PM (.pm (.swap "y" none (some 100000000000000000) none "o.f")) [⟨"x",5000⟩], none),
  (.exec "alice" PM (.pm (.swap "x" none (some 100000000000000000) none "o.f")) [⟨"y",9467⟩], none)]

theorem wF_eq : wF = runK (cw FC FC []) histF := runK_eq _ _

theorem cw_lpInv : C02Sys.LpInv (cw FC FC []) :=
  C02Sys.lp_inv_init_partial _ rfl rfl (cw_allInv FC FC []).supplyCovers
    (fun id => (cw_allInv FC FC []).fresh id (fun p hp => by cases hp))

theorem histF_external : ∀ t ∈ histF, C01Sys.External t.1 := by
  intro t ht
  simp only [histF, List.mem_cons, List.not_mem_nil, or_false] at ht
  rcases ht with rfl | rfl <;> exact ⟨by decide, by decide⟩

theorem swaps_external : ∀ t ∈ swaps, C01Sys.External t.1 := by
  intro t ht
  simp only [swaps, List.mem_cons, List.not_mem_nil, or_false] at ht
  rcases ht with rfl | rfl <;> exact ⟨by decide, by decide⟩

theorem wF_lpInv : C02Sys.LpInv wF :=
  C02Sys.lp_inv_reachable _ cw_lpInv histF histF_external
    (fun n => lpPlainB_sound (allPrefixesK_sound lpPlainB histF _ (by decide +kernel) n))

theorem wF_unfunded : C03Sys.Unfunded wF := unfundedB_sound (by rw [wF_eq]; decide +kernel)

theorem wF_state : wF.pm.pools = [poolFF] ∧ wF.bank.supply lpF = 141421 := by rw [wF_eq]; decide +kernel

theorem swaps_plain (n : Nat) : C02Sys.LpPlain ((swaps.take n).foldl (fun w t => step w t.1 t.2) wF) :=
  lpPlainB_sound (allPrefixesK_sound lpPlainB swaps _ (by rw [wF_eq]; decide +kernel) n)

/-- both swaps are accepted; the pool ends with 100 044 / 199 972, the LP supply is unchanged, `alice` is 57 `x` poorer
    and 0 `y` richer -/
theorem swaps_effect :
    NonVac.allAccepted wF swaps = true ∧
    (swaps.foldl (fun w t => step w t.1 t.2) wF).pm.pools.map (·.assets) = [[⟨"x",100044⟩,⟨"y",199972⟩]] ∧
    (swaps.foldl (fun w t => step w t.1 t.2) wF).bank.supply lpF = 141421 ∧
    (wF.bank.bal "alice" "x", (swaps.foldl (fun w t => step w t.1 t.2) wF).bank.bal "alice" "x") = (900000, 899943) ∧
    (wF.bank.bal "alice" "y", (swaps.foldl (fun w t => step w t.1 t.2) wF).bank.bal "alice" "y") = (800000, 800000) := by
  rw [runK_eq, ← allAcceptedK2_eq, wF_eq]; decide +kernel

/-- `no_history_drains_pool` applies (and its conclusion is about the pool with reserves 100 044 / 199 972) -/
theorem no_history_drains_pool_applies :
    ∃ p' ∈ (swaps.foldl (fun w t => step w t.1 t.2) wF).pm.pools, p'.id = poolFF.id ∧
      p'.assets = [⟨"x",100044⟩,⟨"y",199972⟩] ∧
      ∀ x' y', p'.assets = [⟨"x", x'⟩, ⟨"y", y'⟩] →
        100000 * 200000 ≤ x' * y' ∧ (x' ≤ 100000 → y' ≤ 200000 → x' = 100000 ∧ y' = 200000) := by
  have hp : poolFF ∈ wF.pm.pools := by rw [wF_state.1]; exact List.mem_singleton.2 rfl
  have hc : LpSys.Cp2 poolFF "x" "y" 100000 200000 := ⟨rfl, rfl, by decide⟩
  have hlp : poolFF.lpDenom = lpF := rfl
  obtain ⟨p', hp', hid, hcl⟩ := C03NoDrain.no_history_drains_pool wF wF_lpInv wF_unfunded swaps swaps_external
    swaps_plain poolFF hp hc (by decide)
    (by rw [hlp, swaps_effect.2.2.1, wF_state.2])
    (by rw [hlp, wF_state.2]; decide)
  refine ⟨p', hp', hid, ?_, hcl⟩
  have hm := swaps_effect.2.1
  cases hps : (swaps.foldl (fun w t => step w t.1 t.2) wF).pm.pools with
  | nil => rw [hps] at hp'; cases hp'
  | cons q qs =>
    rw [hps] at hm hp'
    simp only [List.map_cons, List.cons.injEq, List.map_eq_nil_iff] at hm
    obtain ⟨hq, rfl⟩ := hm
    rw [List.mem_singleton] at hp'
    rw [hp']; exact hq

end C03NoDrain

/-! ## 7. `C19Y`: the y-solver on a concrete two-asset stableswap pool

  Amplification 100, reserves 10^9 / 10^9 (6 decimals), offer 10^6 of `x` (Decimal256 arguments as `compute_swap` passes
  them: 10^21 and 10^18). -/

section C19Y
open MantraDex.C19

def poolS : PoolInfo := { id := "s", denoms := ["x","y"], lpDenom := "factory/pm/s.LP", decimals := [6,6], assets := [⟨"x",1000000000⟩,⟨"y",1000000000⟩], ptype := .stable 100, fees := ⟨0, 0, 0, []⟩, status := {} }

theorem poolS_args : decWithPrecision 1000000000 6 = .ok (10 ^ 21) ∧ decWithPrecision 1000000 6 = .ok (10 ^ 18) := by
  decide +kernel

/-- the solver answers 999 000 009 (the new `y` balance: 999 991 `y` leave the pool for 1 000 000 `x`) -/
theorem poolS_y : calculateStableswapY poolS "x" "y" (10 ^ 21) (10 ^ 18) 100 .simulate = .ok 999000009 := by
  decide +kernel

theorem poolS_coeffs :
    stableYCoeffs poolS "x" "y" (10 ^ 21) (10 ^ 18) 100 .simulate = .ok (9990009990000000, 1011000000, 2000000000) := by
  decide +kernel

/-- `stableswap_y_within_one_of_root` applies: 999 000 009 is `⌊root⌋` or `⌊root⌋ + 1` of the quadratic with the
    coefficients the code computes -/
theorem stableswap_y_within_one_of_root_applies :
    (Qy 9990009990000000 1011000000 2000000000 999000009 ≤ 0 ∧
      0 < Qy 9990009990000000 1011000000 2000000000 (999000009 + 1)) ∨
    (Qy 9990009990000000 1011000000 2000000000 (999000009 - 1) ≤ 0 ∧
      0 < Qy 9990009990000000 1011000000 2000000000 999000009) := by
  obtain ⟨c, b, d, hc, h⟩ := stableswap_y_within_one_of_root poolS_y
  rw [poolS_coeffs] at hc
  simp only [Except.ok.injEq, Prod.mk.injEq] at hc
  obtain ⟨rfl, rfl, rfl⟩ := hc
  exact h

/-- which of the two it is (evaluated): the answer is exactly `⌊root⌋` here -/
theorem poolS_floor : Qy 9990009990000000 1011000000 2000000000 999000009 ≤ 0 ∧
    0 < Qy 9990009990000000 1011000000 2000000000 (999000009 + 1) := by decide +kernel

/-- … hence `stableswap_y_never_wrong` applies as well -/
theorem stableswap_y_never_wrong_applies : (999000009 : Nat) = 999000009 ∨ (999000009 : Nat) = 999000009 + 1 :=
  stableswap_y_never_wrong poolS_y poolS_coeffs (z := 999000009) poolS_floor

end C19Y

end MantraDex.NonVac2
