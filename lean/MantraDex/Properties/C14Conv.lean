/-
  C14, the converse of `C14Eq.single_asset_equals_two_step_partial`: if the TWO-STEP route is accepted — the depositor swaps
  ⌊c/2⌋ of the asset for the pool's other asset and then deposits that half together with the proceeds, with the same
  tolerances and the same receiver — then the SINGLE-ASSET deposit of `c` with those options is accepted too (and then, by
  `C14Eq`, ends in the same world up to the odd unit).

  Why it matters: the `twin` stream's monitor (`mon_twin_c14`) now reports "single-asset deposit refused where the two-step route
  is accepted" as a violation of C14 ("has exactly the effect of …").  This theorem is the soundness of that clause: on a tree
  that agrees with the model it cannot fire.

  Hypotheses: those of `C14Eq` (`hu`, `hbuf`, `hvu`, `hsup`) plus what makes the single-asset path applicable at all — the pool
  has exactly the two assets involved (on larger pools the single-asset deposit is refused by design, C14) — and the depositor
  owning the whole of `c` (B only ever needs half of it).  If something further is needed (e.g. the pool manager not being its own
  fee collector, the receiver being valid or absent, `c.amount / 2 ≠ 0`), add it as a NAMED hypothesis, say why, and show it
  necessary with an evaluated counterexample (`NonVac.runTxK` / `NonVac2` twins evaluate `runTx` in the kernel; `C14Eq` ends with
  concrete worlds `cxWorld`, `cxA`, `cxB`).  If the statement is false even then, follow the guide (counterexample, `_partial`).

  PROVED, with TWO named hypotheses added (both about the fee collector, both shown necessary below by kernel-evaluated
  counterexamples `Cx.without_hfcPM_false`, `Cx.without_hfcu_false`; nothing else was added, the conclusion is unchanged):

  * `hfcPM : w.pm.config.feeCollector ≠ PM` — when the pool manager is its own fee collector the protocol fee of the internal
    swap is "sent" from the pool manager to itself, so its balance of the ask denom drops by the burn fee only, while the
    first leg recorded `balance − (protocol fee + burn fee)` as the balance expected in the reply: the reply refuses the
    single-asset deposit (`invalid_input`) whenever the protocol fee is non-zero.  The two-step route has no such check.
  * `hfcu : w.pm.config.feeCollector ≠ u` — `ret` is DEFINED by `hret` as what `u`'s balance of the ask denom gained in the swap
    transaction.  When `u` is the fee collector that gain is the swap's return PLUS its protocol fee, so B deposits a larger
    second amount than the single-asset deposit's second leg (which deposits the simulated return): a different deposit, which
    a deposit tolerance `ls` can accept while refusing A's.

  NOT needed (derived instead): `c.amount / 2 ≠ 0` (the swap refuses zero funds), the receiver being valid or absent (an invalid
  receiver falls back to the sender in both routes, `hvu`), "deposits and swaps enabled", "`c.denom` and `askDenom` are the pool's two
  assets", and "no reserve is empty" — an accepted swap without belief price returns a non-zero amount (a zero return is 100 %
  slippage, above the 50 % cap), and a non-zero return needs both reserves non-empty, for constant-product and for stableswap
  pools (`Proofs/TwoStepConvReserves.lean`).
-/
import MantraDex.Model.System
import MantraDex.Properties.C14
import MantraDex.Properties.C14Eq
import MantraDex.Proofs.TwoStepConvLemmas
import MantraDex.Proofs.NonVac2Twin

set_option linter.unusedSimpArgs false
set_option linter.unusedVariables false

namespace MantraDex.C14Conv
open MantraDex
open MantraDex.TwoStepConv

/-  The statement as handed over (no hypothesis on the fee collector) — false, see `Cx.without_hfcPM_false` / `Cx.without_hfcu_false`:

    theorem two_step_accepted_implies_single_accepted (w w1 wB : World) (u : Addr) (c : Coin) (ls ss : Option Nat)
        (recv : Option Addr) (pid : String) (askDenom : Denom) (ret : Nat) (pool : PoolInfo)
        (hu : isContract u = false) (hbuf : w.pm.buffer = none) (hvu : w.validAddr u = true)
        (hsup : c.amount ≤ w.bank.supply c.denom) (hown : c.amount ≤ w.bank.bal u c.denom)
        (hp : w.pm.getPool pid = .ok pool) (hlen : pool.assets.length = 2) (hne : askDenom ≠ c.denom)
        (hB1 : runTx w (.exec u PM (.pm (.swap askDenom none ss none pid)) [⟨c.denom, c.amount / 2⟩]) = .ok w1)
        (hret : w1.bank.bal u askDenom = w.bank.bal u askDenom + ret)
        (hB2 : runTx w1 (.exec u PM (.pm (.provideLiquidity ls ss recv pid none none))
            [⟨c.denom, c.amount / 2⟩, ⟨askDenom, ret⟩]) = .ok wB) :
        ∃ wA, runTx w (.exec u PM (.pm (.provideLiquidity ls ss recv pid none none)) [c]) = .ok wA  -/

/-- If the two-step route B (swap ⌊c/2⌋, then deposit that half with the proceeds; same tolerances, same receiver) is
    accepted, the single-asset deposit A of `c` is accepted.  Added to the handed-over statement: `hfcPM`, `hfcu` (the fee
    collector is neither the pool manager nor the depositor), see the file header. -/
theorem two_step_accepted_implies_single_accepted (w w1 wB : World) (u : Addr) (c : Coin) (ls ss : Option Nat)
    (recv : Option Addr) (pid : String) (askDenom : Denom) (ret : Nat) (pool : PoolInfo)
    (hu : isContract u = false)
    (hbuf : w.pm.buffer = none) (hvu : w.validAddr u = true)
    (hsup : c.amount ≤ w.bank.supply c.denom)
    (hown : c.amount ≤ w.bank.bal u c.denom)
    (hp : w.pm.getPool pid = .ok pool) (hlen : pool.assets.length = 2)
    (hne : askDenom ≠ c.denom)
    (hfcPM : w.pm.config.feeCollector ≠ PM) (hfcu : w.pm.config.feeCollector ≠ u)
    (hB1 : runTx w (.exec u PM (.pm (.swap askDenom none ss none pid)) [⟨c.denom, c.amount / 2⟩]) = .ok w1)
    (hret : w1.bank.bal u askDenom = w.bank.bal u askDenom + ret)
    (hB2 : runTx w1 (.exec u PM (.pm (.provideLiquidity ls ss recv pid none none))
        [⟨c.denom, c.amount / 2⟩, ⟨askDenom, ret⟩]) = .ok wB) :
    ∃ wA, runTx w (.exec u PM (.pm (.provideLiquidity ls ss recv pid none none)) [c]) = .ok wA := by
  have huPM : u ≠ PM := C14Eq.not_contract_ne_pm hu
  obtain ⟨o, am⟩ := c
  simp only at hsup hown hne hB1 hB2 ⊢
  -- the swap transaction of B, taken apart
  have hB1' : execMsg (63 + 1) (w.at { w.bank with calls := 0, failAt := none } w.pm) u
      (.wasmExec PM (.pm (.swap askDenom none ss none pid)) [⟨o, am / 2⟩]) = .ok w1 := hB1
  rw [execMsg_pm_at 63 w _ _ u _ _ rfl] at hB1'
  obtain ⟨bB1, hb1, hB1'⟩ := bind_ok.mp hB1'
  obtain ⟨⟨sB, rB⟩, hsw, hsubs⟩ := bind_ok.mp hB1'
  simp only [pmExecute] at hsw
  rw [swapHandler_eq] at hsw
  obtain ⟨y, hcore, hx⟩ := map_ok.mp hsw
  simp only [Prod.mk.injEq] at hx
  obtain ⟨rfl, rfl⟩ := hx
  obtain ⟨hne', hhalf0, hps⟩ := swapCore_inv hcore
  simp only at hsubs hne' hhalf0
  have hsubs' : execSubs 63 (w.at bB1 y.1) PM
      ((swapMsgs u w.pm.config.feeCollector y.2.ret y.2.burnFee y.2.protocolFee).map mkSub) = .ok w1 := hsubs
  rw [execSubs_leaf_at _ 63 w bB1 _ PM (swapMsgs_leaf _ _ _ _ _)
    (by have := swapMsgs_length u w.pm.config.feeCollector y.2.ret y.2.burnFee y.2.protocolFee; omega)] at hsubs'
  obtain ⟨bB2, hb2, hw1⟩ := bind_ok.mp hsubs'
  simp only [pure_ok] at hw1
  subst hw1
  obtain ⟨pool', sim, idx, as', hp', hidx, hsim, hout, hret0, hy1, hr, hbf, hpf⟩ := performSwap_more hps
  rw [hp] at hp'
  cases hp'
  simp only at hidx hsim
  rw [hr, hbf, hpf] at hb2
  obtain ⟨hin, c', hfind, hask⟩ := other_asset hlen hidx
  have hnz : pool.assets.any (·.amount == 0) = false := computeSwap_no_empty_reserve hlen hsim hret0
  -- the proceeds are the simulated return
  have hprocs : bB2.bal u askDenom = w.bank.bal u askDenom + sim.ret :=
    swap_proceeds (b0 := { w.bank with calls := 0, failAt := none }) huPM hne hfcu hb1 hb2
  have hret' : bB2.bal u askDenom = w.bank.bal u askDenom + ret := hret
  have hreq : ret = sim.ret := by omega
  subst hreq
  -- the bank side of A
  obtain ⟨bA1, bA2, bA3, bA4, h1, h2, h3, e1, e2, hge, h4⟩ :=
    bank_single_ex (b0 := { w.bank with calls := 0, failAt := none }) huPM hne hfcPM rfl hown hhalf0 hb1 hb2
  obtain ⟨bB1', bB2', bB3, hb1', hb2', hb3, hrel⟩ :=
    bank_two_step (tf := w.tfFees) (b0 := { w.bank with calls := 0, failAt := none }) huPM hne rfl hsup h1 h2 h3 e2 h4
  rw [hb1] at hb1'
  cases hb1'
  rw [hb2] at hb2'
  cases hb2'
  -- the deposit transaction of B, taken apart
  have hB2' : execMsg (63 + 1) (w.at { bB2 with calls := 0, failAt := none } y.1) u
      (.wasmExec PM (.pm (.provideLiquidity ls ss recv pid none none)) [⟨o, am / 2⟩, ⟨askDenom, sim.ret⟩]) = .ok wB := hB2
  rw [execMsg_pm_at 63 w _ _ u _ _ rfl, hb3] at hB2'
  simp only [ok_bind, pmExecute] at hB2'
  obtain ⟨⟨sB6, rB6⟩, hprovB, hsubsB⟩ := bind_ok.mp hB2'
  simp only at hsubsB
  -- deposits are enabled
  have hid : pool.id = pid := C12.getPool_id hp
  have hy1p : y.1.getPool pid = .ok { pool with assets := as' } := by
    rw [hy1, ← hid]
    exact C17.getPool_savePool_self _ _
  obtain ⟨pool2, hp2, hst2⟩ := pl_deposits_enabled hprovB
  rw [hy1p] at hp2
  cases hp2
  simp only at hst2
  -- the mints
  have hfunds : (([⟨o, am / 2⟩, ⟨askDenom, sim.ret⟩] : List Coin).map (·.denom)).Nodup := by
    simp [hne']
  obtain ⟨shares, locked, assets', ms, -, -, hms, hcase⟩ := PoolTx.provide_inv hfunds (by simp) hy1p hprovB
  have hmint : ∀ m ∈ ms, IsMint m := by
    intro m hm
    rcases hcase with ⟨_, _, rfl⟩ | ⟨_, rfl⟩
    · simp only [List.mem_cons, List.not_mem_nil, or_false] at hm
      exact ⟨_, _, hm⟩
    · simp only [List.mem_cons, List.not_mem_nil, or_false] at hm
      rcases hm with rfl | rfl <;> exact ⟨_, _, rfl⟩
  have hmslen : ms.length + 1 ≤ 60 := by
    rcases hcase with ⟨_, _, rfl⟩ | ⟨_, rfl⟩ <;> simp
  rw [hms, execSubs_leaf_at ms 63 w bB3 _ PM (fun m hm => isMint_leaf (hmint m hm)) (by omega)] at hsubsB
  obtain ⟨bB4, hb4, -⟩ := bind_ok.mp hsubsB
  obtain ⟨bA5, h5, -⟩ := mints_rel_conv ms hmint hrel hb4
  -- the deposit handler sees the same thing in both runs
  have hybuf : y.1.buffer = none := by rw [performSwap_buffer hps]; exact hbuf
  obtain ⟨deps, hagg, -⟩ := pl_agg hprovB
  have hdlen : deps.length ≠ 1 := by
    rw [aggregateCoins_length hfunds hagg]; simp
  have haddr : addrOrDefault (w.env bA4 y.1) (some (addrOrDefault (w.env bA1 w.pm) recv u)) PM =
      addrOrDefault (w.env bB3 y.1) recv u := by
    have hv : ∀ b s a, (w.env b s).validAddr a = w.validAddr a := fun _ _ _ => rfl
    cases recv with
    | none => simp only [addrOrDefault, hv, hvu, if_true]
    | some a =>
      by_cases ha : w.validAddr a = true
      · simp only [addrOrDefault, hv, ha, if_true]
      · simp only [addrOrDefault, hv, ha, hvu, if_true, if_false, Bool.false_eq_true]
  have hcongr := provide_multi_congr y.1 (w.env bA4 y.1) (w.env bB3 y.1) PM u _ deps ls ss
    (some (addrOrDefault (w.env bA1 w.pm) recv u)) recv pid hagg hdlen rfl hrel.1 rfl haddr
  have hprov2 : provideLiquidity { y.1 with buffer := none } (w.env bA4 { y.1 with buffer := none }) PM
      [⟨o, am / 2⟩, ⟨askDenom, sim.ret⟩] ls ss
      (some (addrOrDefault (w.env bA1 w.pm) recv u)) pid none none = .ok (sB6, rB6) := by
    rw [C14Eq.clear_buffer_eq hybuf, hcongr]
    exact hprovB
  -- A, put together
  have hexp : bA1.bal PM askDenom - (sim.protocolFee + sim.burnFee) ≠ 0 := by omega
  have hA := single_run_fwd (w := w) (u := u) (c := ⟨o, am⟩) (ls := ls) (ss := ss) (recv := recv)
    hp hst2 hin hnz hlen hfind hask hsim hout h1 hexp h2 hcore
    (by rw [hr, hbf, hpf]; exact h3) e1 e2 h4 hprov2 hms hmint hmslen h5
  exact ⟨w.at bA5 sB6, hA⟩

/-! ### counterexamples to the statement without `hfcPM` / `hfcu` (kernel-evaluated through the twins of `runTx`) -/

namespace Cx
open MantraDex.NonVac2

def lp : Denom := "factory/pm/p.LP"

/-- constant-product pool `x/y`, reserves 10^6/10^6, protocol fee 0.5 %, no other fee -/
def pool : PoolInfo := {
  id := "p", denoms := ["x","y"], lpDenom := lp, decimals := [6,6]
  assets := [⟨"x", 1000000⟩, ⟨"y", 1000000⟩], ptype := .cp, fees := ⟨5000000000000000,0,0,[]⟩, status := {} }

/-- a well-formed world (empty buffer, every address valid, supplies cover the balances, LP supply 10^6) in which
    `alice` holds 5000 `x`; the pool manager's fee collector is `fc` -/
def world (fc : Addr) : World := {
  bank := {
    bal := fun a d => if a = "alice" ∧ d = "x" then 5000 else if a = PM ∧ (d = "x" ∨ d = "y") then 1000000 else 0
    supply := fun d => if d = "x" then 1005000 else if d = "y" then 1000000 else if d = lp then 1000000 else 0 }
  pm := { config := ⟨fc, FM, ⟨"x", 0⟩⟩, pools := [pool], owner := { owner := some "o" }, buffer := none }
  fm := C14Eq.cxFm
  em := { cfg := ⟨86400, 0⟩, owner := { owner := some "o" } }
  fc := { owner := some "o" }, nowNs := 0, tfFees := [], validAddr := fun _ => true }

/-- the deposit: `1001 x` -/
def c : Coin := ⟨"x", 1001⟩
/-- A: `alice` deposits `1001 x` with deposit tolerance `ls` -/
def txA (ls : Option Nat) : Tx := .exec "alice" PM (.pm (.provideLiquidity ls none none "p" none none)) [c]
/-- B, first transaction: `alice` swaps `500 x` for `y` (gross 499, protocol fee 2, return 497) -/
def txB1 : Tx := .exec "alice" PM (.pm (.swap "y" none none none "p")) [⟨c.denom, c.amount / 2⟩]
/-- B, second transaction: `alice` deposits `500 x + ret y` with deposit tolerance `ls` -/
def txB2 (ls : Option Nat) (ret : Nat) : Tx :=
  .exec "alice" PM (.pm (.provideLiquidity ls none none "p" none none)) [⟨c.denom, c.amount / 2⟩, ⟨"y", ret⟩]

/-- a deposit tolerance of 0.3 % -/
def tol : Nat := 3000000000000000

/-! #### the pool manager as its own fee collector -/

theorem pm_swap : ∃ w', runTx (world PM) txB1 none = .ok w' ∧ w'.bank.bal "alice" "y" = 497 :=
  of_eval (by decide +kernel)

theorem pm_deposit : ∃ w', runTx (step (world PM) txB1 none) (txB2 none 497) none = .ok w' ∧
    w'.bank.bal "alice" lp = 497 :=
  of_eval (by rw [← stepK2_eq]; decide +kernel)

/-- the single-asset deposit is refused by the reply's balance check -/
theorem pm_single : runTx (world PM) (txA none) none = .error .invalidInput :=
  refused_of_eval (by decide +kernel)

/-- the statement without `hfcPM` (everything else kept, `hfcu` included) is false -/
theorem without_hfcPM_false :
    ¬ ∀ (w w1 wB : World) (u : Addr) (c : Coin) (ls ss : Option Nat)
      (recv : Option Addr) (pid : String) (askDenom : Denom) (ret : Nat) (pool : PoolInfo),
      isContract u = false → w.pm.buffer = none → w.validAddr u = true →
      c.amount ≤ w.bank.supply c.denom → c.amount ≤ w.bank.bal u c.denom →
      w.pm.getPool pid = .ok pool → pool.assets.length = 2 → askDenom ≠ c.denom →
      w.pm.config.feeCollector ≠ u →
      runTx w (.exec u PM (.pm (.swap askDenom none ss none pid)) [⟨c.denom, c.amount / 2⟩]) = .ok w1 →
      w1.bank.bal u askDenom = w.bank.bal u askDenom + ret →
      runTx w1 (.exec u PM (.pm (.provideLiquidity ls ss recv pid none none))
        [⟨c.denom, c.amount / 2⟩, ⟨askDenom, ret⟩]) = .ok wB →
      ∃ wA, runTx w (.exec u PM (.pm (.provideLiquidity ls ss recv pid none none)) [c]) = .ok wA := by
  intro H
  obtain ⟨w1, hr1, hv1⟩ := pm_swap
  obtain ⟨wB, hr2, -⟩ := pm_deposit
  have hstep : step (world PM) txB1 none = w1 := by unfold step; rw [hr1]
  rw [hstep] at hr2
  obtain ⟨wA, hA⟩ := H (world PM) w1 wB "alice" c none none none "p" "y" 497 pool (by decide) rfl rfl
    (by decide) (by decide) (by decide +kernel) (by decide) (by decide) (by decide) hr1
    (by rw [hv1]; decide) hr2
  have := pm_single
  unfold txA at this
  rw [this] at hA
  cases hA

/-! #### the depositor as fee collector -/

/-- `alice` receives the return 497 and, as fee collector, the protocol fee 2 -/
theorem u_swap : ∃ w', runTx (world "alice") txB1 none = .ok w' ∧ w'.bank.bal "alice" "y" = 499 :=
  of_eval (by decide +kernel)

/-- `500 x + 499 y` is within 0.3 % of the pool's ratio -/
theorem u_deposit : ∃ w', runTx (step (world "alice") txB1 none) (txB2 (some tol) 499) none = .ok w' ∧
    w'.bank.bal "alice" lp = 499 :=
  of_eval (by rw [← stepK2_eq]; decide +kernel)

/-- the second leg of the single-asset deposit offers `500 x + 497 y`, which is not -/
theorem u_single : runTx (world "alice") (txA (some tol)) none = .error .slippage :=
  refused_of_eval (by decide +kernel)

/-- the statement without `hfcu` (everything else kept, `hfcPM` included) is false -/
theorem without_hfcu_false :
    ¬ ∀ (w w1 wB : World) (u : Addr) (c : Coin) (ls ss : Option Nat)
      (recv : Option Addr) (pid : String) (askDenom : Denom) (ret : Nat) (pool : PoolInfo),
      isContract u = false → w.pm.buffer = none → w.validAddr u = true →
      c.amount ≤ w.bank.supply c.denom → c.amount ≤ w.bank.bal u c.denom →
      w.pm.getPool pid = .ok pool → pool.assets.length = 2 → askDenom ≠ c.denom →
      w.pm.config.feeCollector ≠ PM →
      runTx w (.exec u PM (.pm (.swap askDenom none ss none pid)) [⟨c.denom, c.amount / 2⟩]) = .ok w1 →
      w1.bank.bal u askDenom = w.bank.bal u askDenom + ret →
      runTx w1 (.exec u PM (.pm (.provideLiquidity ls ss recv pid none none))
        [⟨c.denom, c.amount / 2⟩, ⟨askDenom, ret⟩]) = .ok wB →
      ∃ wA, runTx w (.exec u PM (.pm (.provideLiquidity ls ss recv pid none none)) [c]) = .ok wA := by
  intro H
  obtain ⟨w1, hr1, hv1⟩ := u_swap
  obtain ⟨wB, hr2, -⟩ := u_deposit
  have hstep : step (world "alice") txB1 none = w1 := by unfold step; rw [hr1]
  rw [hstep] at hr2
  obtain ⟨wA, hA⟩ := H (world "alice") w1 wB "alice" c (some tol) none none "p" "y" 499 pool (by decide) rfl rfl
    (by decide) (by decide) (by decide +kernel) (by decide) (by decide) (by decide) hr1
    (by rw [hv1]; decide) hr2
  have := u_single
  unfold txA at this
  rw [this] at hA
  cases hA

/-- non-vacuity: with somebody else as fee collector (`FC`) the theorem applies to the same pool and deposit —
    B is accepted (return 497, tolerance 0.9 %), hence so is A -/
theorem applies : ∃ wA, runTx (world FC) (txA (some (3 * tol))) none = .ok wA := by
  obtain ⟨w1, hr1, hv1⟩ : ∃ w', runTx (world FC) txB1 none = .ok w' ∧ w'.bank.bal "alice" "y" = 497 :=
    of_eval (by decide +kernel)
  obtain ⟨wB, hr2, -⟩ : ∃ w', runTx (step (world FC) txB1 none) (txB2 (some (3 * tol)) 497) none = .ok w' ∧
      w'.bank.bal "alice" lp = 497 := of_eval (by rw [← stepK2_eq]; decide +kernel)
  have hstep : step (world FC) txB1 none = w1 := by unfold step; rw [hr1]
  rw [hstep] at hr2
  exact two_step_accepted_implies_single_accepted (world FC) w1 wB "alice" c (some (3 * tol)) none none "p" "y" 497 pool
    (by decide) rfl rfl (by decide) (by decide) (by decide +kernel) (by decide) (by decide) (by decide) (by decide)
    hr1 (by rw [hv1]; decide) hr2

end Cx

end MantraDex.C14Conv
