/-
  Stableswap monitors against the exact invariant (`Spec/Invariant.lean`): C03 (the exact D never
  decreases through a swap), C19 (quoted output within two output units + two offer units of the
  exact solution, inside the supported range), C02 (mint ≤ relative growth of exact D).
-/
import MantraDex.Model.Pool
import MantraDex.Model.HistMon
import MantraDex.Spec.Invariant

namespace MantraDex

/-- balances in the pool's highest precision -/
def normBalances (decimals amounts : List Nat) : List Nat :=
  let maxP := (listMax decimals).getD 0
  (amounts.zip decimals).map fun (a, d) => a * 10 ^ (maxP - d)

def SS_K : Nat := 1000000

/-- supported range of C19: 2–4 assets, amp 1…10^6, decimals in {6,8,12,18}, non-zero reserves with
    skew ≤ 1000:1 (normalised), offer from one unit to five times the offer reserve -/
def ssInRange (amp : Nat) (decimals amounts : List Nat) (offerIdx offer : Nat) : Bool :=
  let xs := normBalances decimals amounts
  let mx := (listMax xs).getD 0
  let mn := (listMin xs).getD 0
  2 ≤ xs.length && xs.length ≤ 4 && 1 ≤ amp && amp ≤ 1000000 &&
  -- (decimals above 18 — beyond what `Decimal256` can hold — are refused by the code: a quote that IS returned for
  -- such a pool is judged like any other)
  decimals.all (fun d => d == 6 || d == 8 || d == 12 || d == 18 || (18 < d && d ≤ 30)) &&
  0 < mn && mx ≤ 1000 * mn && 0 < offer && offer ≤ 5 * (amounts.getD offerIdx 0) &&
  -- "dust to 10^30 units"
  amounts.all (fun a => a ≤ 10 ^ 30)

/-- exact gross output of a swap, in units of 10^-6 of the highest-precision unit: (exact, reserveK) -/
def exactOutKShift (dShiftUnits : Nat) (amp : Nat) (decimals amounts : List Nat) (offerIdx askIdx offer : Nat) : Nat :=
  let n := amounts.length
  let ann := amp * n
  let xs := (normBalances decimals amounts).map (· * SS_K)
  let maxP := (listMax decimals).getD 0
  let offerN := offer * 10 ^ (maxP - decimals.getD offerIdx 0) * SS_K
  let d := Spec.dFloor ann xs - dShiftUnits * SS_K
  let others := (xs.zipIdx.filter (fun x => x.2 != askIdx)).map fun x =>
    if x.2 == offerIdx then x.1 + offerN else x.1
  let y := Spec.yFloor ann others d
  xs.getD askIdx 0 - y

def exactOutK (amp : Nat) (decimals amounts : List Nat) (offerIdx askIdx offer : Nat) : Nat :=
  exactOutKShift 0 amp decimals amounts offerIdx askIdx offer

/-- the gross output the ORIGINAL algorithm (the model of `compute_swap`, tied to the code by the `swapmath` stream)
    computes for this pool state and offer; fees do not enter the gross output -/
def origGross (amp : Nat) (decimals before : List Nat) (offerIdx askIdx offer : Nat) : Option Nat :=
  let denoms := (List.range before.length).map fun i => "d" ++ toString i
  let p : PoolInfo := { id := "m", denoms := denoms, lpDenom := "lp", decimals := decimals,
                        assets := (denoms.zip before).map (fun x => ⟨x.1, x.2⟩), ptype := .stable amp,
                        fees := ⟨0, 0, 0, []⟩, status := default }
  match computeSwap p ⟨denoms.getD offerIdx "", offer⟩ (denoms.getD askIdx "") with
  | .ok c => some (c.ret + c.swapFee + c.protocolFee + c.burnFee + c.extraFees)
  | .error _ => none

/-- C19: |quoted gross − exact| ≤ 2 output units + value of 2 offer units (+0.01 unit numerical slack) -/
def monSsQuote (amp : Nat) (decimals amounts : List Nat) (offerIdx askIdx offer gross : Nat) : Verdict :=
  if !ssInRange amp decimals amounts offerIdx offer then none else
  let maxP := (listMax decimals).getD 0
  let ap := decimals.getD askIdx 0
  let scale := 10 ^ (maxP - ap) * SS_K            -- one ask unit in the exact scale
  let exact := exactOutK amp decimals amounts offerIdx askIdx offer
  -- value of two offer units at the trade's own average price, in ask units (rounded up)
  let offerUnitsInAsk := 2 * ((gross + offer - 1) / offer)
  let tol := (2 + offerUnitsInAsk) * scale + scale / 100
  -- finding F-13: on some in-range inputs (dust pools, 4 assets near the skew limit, offers of the
  -- size of the reserve) the quote misses the stated bound by a small factor; the recorded class is
  -- "within 16x the bound + 10^-15 of the ask reserve"
  let tolKnown := 16 * (2 + offerUnitsInAsk) * scale + (amounts.getD askIdx 0) / 1000000000000000 * scale
  -- finding F-18: the D solver works in Decimal256 with 18 fractional digits; for a pool whose highest precision is 18
  -- one smallest unit IS one atomic of that type, so every floor inside a Newton step costs up to a whole unit and D ends
  -- up hundreds of units off; on pools with small reserves (below 10^21 units, i.e. a thousand whole tokens) the quote
  -- then misses the bound by large factors (observed: 442 units on an output of 2.5·10^8, amp 1).  Class: highest
  -- precision 18 AND a reserve below 10^21 units AND the gross output is exactly the original algorithm's value
  let smallest := (listMin (normBalances decimals amounts)).getD 0
  -- every recorded class is tied to its numerical cause: the gross output is EXACTLY the value the original algorithm
  -- computes for this state (a change of the arithmetic that moves the output at all is outside every known class, however
  -- small the move: e.g. a Newton step for D that divides before it multiplies shifts the output of a pool holding a million
  -- 18-decimals tokens by 10^6 units — far inside "10^-15 of the reserve", far outside the property's two units)
  let isOrig := origGross amp decimals amounts offerIdx askIdx offer == some gross
  -- (… and for any highest precision when the smallest reserve is worth less than 10^-6 of a whole token: the solver's products
  --  then fall below the last of its 18 digits and D is grossly wrong — same cause, same class)
  let noGuardDigits := ((maxP == 18 && decide (smallest < 10 ^ 21)) || decide (smallest * 10 ^ (18 - maxP) < 10 ^ 12)) && isOrig
  if !(gross ≤ amounts.getD askIdx 0) then some "C19-output-exceeds-reserve"
  else if gross * scale ≤ exact + tol && exact ≤ gross * scale + tol then none
  else if !isOrig then some "C19-quote-accuracy"
  else if !(gross * scale ≤ exact + tolKnown && exact ≤ gross * scale + tolKnown) then
    (if noGuardDigits then some "C19-quote-accuracy-18dec" else some "C19-quote-accuracy,C19-quote-accuracy-minor")
  else some "C19-quote-accuracy-minor"

/-- C03: the exact invariant after the swap is at least the exact invariant before (compared at
    10^-6 of a highest-precision unit).  When it decreases, the cause is looked up: if the gross
    output is within (1 + C19 tolerance) ask units above the exact output — the output is rounded
    *up* (finding F-03) — the verdict is `C03-ss-rounding`, otherwise `C03-ss-invariant`. -/
def monSsSwapG (grossKnown : Bool) (amp : Nat) (decimals before : List Nat) (offerIdx askIdx offer gross out : Nat) : Verdict :=
  let n := before.length
  let ann := amp * n
  -- the offer is added and what leaves is subtracted, also when both are the same asset (a swap of an asset for
  -- itself, which the code refuses: if it were executed, the pool would simply lose `out - offer`)
  let after := before.zipIdx.map fun x =>
    let a := if x.2 == offerIdx then x.1 + offer else x.1
    if x.2 == askIdx then a - out else a
  if (normBalances decimals before).any (· == 0) || (normBalances decimals after).any (· == 0) then none else
  let db := Spec.dFloorScaled ann (normBalances decimals before) SS_K
  let da := Spec.dFloorScaled ann (normBalances decimals after) SS_K
  if db ≤ da then none else
  if offerIdx == askIdx then some "C03-ss-invariant" else
  let maxP := (listMax decimals).getD 0
  let scale := 10 ^ (maxP - decimals.getD askIdx 0) * SS_K
  let exact := exactOutK amp decimals before offerIdx askIdx offer
  -- 1 unit of rounding up + the recorded accuracy class of the quote (F-13: 16x the C19 bound +
  -- 10^-15 of the ask reserve)
  let tolUnits := 1 + 16 * (2 + 2 * ((gross + offer - 1) / (max offer 1))) + (before.getD askIdx 0) / 1000000000000000
  -- … or a relative decrease of D below 10^-9 (resolution of the D solver — one unit at the pool's
  -- precision — amplified on heavily depegged pools)
  if gross * scale ≤ exact + tolUnits * scale || (db - da) * 1000000000 ≤ db then some "C03-ss-rounding"
  else
  -- … or the resolution of D itself: the swap solves for the new balance against an INTEGER D (highest-precision
  -- units) obtained by a Newton iteration stopped within one unit, i.e. up to two units below the exact invariant.  On a
  -- heavily depegged pool the output is extremely sensitive to D (observed: 0.26 units of D = 4·10^5 output units on a
  -- 4-asset pool with two nearly empty reserves), so the output is compared with the exact output for D − 2 units
  let exactLowD := exactOutKShift 2 amp decimals before offerIdx askIdx offer
  if gross * scale ≤ exactLowD + tolUnits * scale then some "C03-ss-rounding"
  else
  -- finding F-17: far outside the supported range (skew beyond 1000:1 — a heavily depegged pool whose invariant is much
  -- smaller than its largest balance) the coefficient `c` of the y-solver, accumulated as ⌊c·D/(x·n)⌋ per asset, passes
  -- through a small intermediate value (D²/(x·n) ≈ 10^7 when x ≫ D) whose floor costs 10^-8 relative precision; the
  -- solver then solves ITS quadratic exactly (C19Y) but the output is off by that relative error of the reserve.
  -- Class: out of range AND the gross output is exactly what the original algorithm computes (anything else is a violation)
  let nb := normBalances decimals before
  let mx := (listMax nb).getD 0
  let mn := (listMin nb).getD 0
  let outOfRange := !(mx ≤ 1000 * mn && 1 ≤ amp && amp ≤ 1000000)
  let og := origGross amp decimals before offerIdx askIdx offer
  -- (for a hop of a route only what LEFT the pool is observable: at most the original algorithm's gross output)
  let asOriginal := if grossKnown then og == some gross else (match og with | some g => decide (gross ≤ g) | none => false)
  if outOfRange && asOriginal then some "C03-ss-depegged-precision"
  -- finding F-18 seen from C03: pools whose highest precision is 18 with small reserves — the Decimal256 D solver has no
  -- guard digits, D is tens to hundreds of units off and the output can exceed the exact one by more than the classes above
  -- … and, for ANY highest precision, pools whose smallest reserve is worth less than 10^-6 of a whole token (`mn·10^(18−maxP)`
  -- < 10^12 atomics of the Decimal256 the solver works in): there the products of the Newton step fall below the last digit
  -- and D is grossly wrong (observed: a 12-decimals pool with reserves of 114 … 271 UNITS, D computed as 625 where the exact
  -- value is 796, a swap paying 241 where the invariant allows 169)
  else if ((maxP == 18 && decide (mn < 10 ^ 21)) || decide (mn * 10 ^ (18 - maxP) < 10 ^ 12)) && asOriginal then some "C03-ss-18dec-precision"
  else some "C03-ss-invariant"

def monSsSwap (amp : Nat) (decimals before : List Nat) (offerIdx askIdx offer gross out : Nat) : Verdict :=
  monSsSwapG true amp decimals before offerIdx askIdx offer gross out

/-- the fee-adjusted balances the code's stableswap mint computes for a later, imbalanced deposit (the loop of
    `computeLpMintStable`, repeated here so that the monitor can look at the intermediate value): `none` when the deposit is
    balanced / the computation fails -/
def ssMintAdjusted (amp : Nat) (old new : List Coin) (p : PoolInfo) : Option (List Coin) :=
  let r : R (List Coin) := do
    let d0 ← match ← computeDWithPoolInfo amp old p with | some d => pure d | none => .error .other
    let d1 ← match ← computeDWithPoolInfo amp new p with | some d => pure d | none => .error .other
    let n := old.length
    let maxPrec ← match listMax p.decimals with | some m => pure m | none => .error .panic
    let n18 ← fit U256_MAX (n * ONE18) .panic
    let bf1 ← decMul U256_MAX p.fees.swap n18
    let den ← fit U256_MAX (4 * (n - 1) * ONE18) .panic
    let baseFee ← decDiv U256_MAX bf1 den
    let sum01 ← ckAdd U512_MAX d0 d1
    let ys ← ckDiv sum01 n
    (List.range n).foldlM (fun adj i => do
      let ni ← getD? new i
      let oi ← getD? old i
      let ai ← getD? adj i
      let ad ← match ← findDenomDecimals p ni.denom with | some d => pure d | none => .error .other
      let nOld ← match ← normalizeAmount oi.amount ad maxPrec with | some x => pure x | none => .error .other
      let nNew ← match ← normalizeAmount ai.amount ad maxPrec with | some x => pure x | none => .error .other
      let m ← ckMul U512_MAX d1 nOld
      let ideal ← ckDiv m d0
      let difference := absDiff nNew ideal
      let xs ← decWithPrecision nNew maxPrec
      let df ← dynamicFee xs ys baseFee maxPrec
      let dfi ← decToUintWithPrecision df 0
      let prod := min (dfi * difference) U512_MAX
      let dec512 ← fit U512_MAX (10 ^ maxPrec) .panic
      let feeMax ← ckDiv prod dec512
      let feeAsset ← match ← normalizeAmount512 feeMax maxPrec ad with | some x => pure x | none => .error .other
      let na ← ckSub ai.amount feeAsset
      pure (setAmount adj i na)) new
  r.toOption

/-- C02 (stableswap): pool value per LP token, exact D / supply, never decreases through a deposit
    or a withdrawal beyond the stated granularity (D known to within two units); on the first
    deposit the supply equals D to within two units. -/
def monSsLpF (fees : Option PoolFee) (amp : Nat) (decimals before after : List Nat) (supplyBefore supplyAfter : Nat) : Verdict :=
  let ann := amp * before.length
  let nb := normBalances decimals before
  let na := normBalances decimals after
  if na.any (· == 0) then none else
  let da := Spec.dFloorScaled ann na SS_K
  if supplyBefore == 0 then
    -- accuracy of the D used for the first mint: only inside C19's supported range (skew ≤ 1000:1)
    let mx := (listMax na).getD 0
    let mn := (listMin na).getD 0
    if !(mx ≤ 1000 * mn && 1 ≤ amp && amp ≤ 1000000) then none else
    if supplyAfter * SS_K ≤ da + 2 * SS_K && da ≤ supplyAfter * SS_K + 3 * SS_K then none
    -- the first mint IS the code's D of the deposited balances: where that value is more than two units from the exact root
    -- (findings F-14 / F-15: the integer Newton iteration ends in a rounding cycle or a shifted fixpoint, observed up to ~20
    -- units inside the supported range) the first mint misses the bound as a consequence — class: the supply is exactly the
    -- original algorithm's D AND that D is more than two units off; any other first mint is `C02-ss-first-mint`
    else if (match calculateDCore amp na na.length with
              | .ok dm => dm == supplyAfter && decide (absDiff dm (Spec.dFloor ann na) > 2)
              | .error _ => false) then some "C02-ss-dilution-d-inaccurate"
    else some "C02-ss-first-mint"
  else if nb.any (· == 0) then none else
  let db := Spec.dFloorScaled ann nb SS_K
  -- D1/S1 ≥ D0/S0 up to two units of D on either side
  if db * supplyAfter ≤ (da + 2 * SS_K) * supplyBefore + 2 * SS_K * supplyAfter then none else
  -- cause: the LP minted is computed from the code's own D (`calculate_d_core` on the balances before and after).
  -- Where that algorithm's value is more than two units away from the exact root (findings F-14 / F-15: rounding
  -- cycles, 255 steps exhausted — typical for extreme skew) the dilution is the CONSEQUENCE of those recorded
  -- findings (class `C02-ss-dilution-d-inaccurate`); with both values accurate it is a violation of its own
  let off (xs : List Nat) : Bool :=
    match calculateDCore amp xs xs.length with
    | .ok dm => decide (absDiff dm (Spec.dFloor ann xs) > 2)
    | .error _ => true
  -- finding F-19: on a heavily skewed pool the "dynamic fee" of an imbalanced deposit exceeds 100 % of the deposited difference;
  -- the fee-adjusted balance of the scarce asset then becomes ZERO, `calculate_d_core` skips a zero balance, and the adjusted
  -- D is that of a pool with one asset fewer — far above the true one — so the deposit is credited with several times its
  -- contribution.  Class: the code's own fee-adjusted balances contain a zero AND the LP minted is exactly what the original
  -- algorithm mints for this deposit (any other over-mint is still `C02-ss-dilution`)
  let feeZeroes : Bool := match fees with
    | none => false
    | some f =>
      let denoms := (List.range before.length).map fun i => "d" ++ toString i
      let p : PoolInfo := { id := "m", denoms := denoms, lpDenom := "lp", decimals := decimals,
                            assets := (denoms.zip before).map (fun x => ⟨x.1, x.2⟩), ptype := .stable amp,
                            fees := f, status := default }
      let newC : List Coin := (denoms.zip after).map (fun x => ⟨x.1, x.2⟩)
      (match ssMintAdjusted amp p.assets newC p with
        | some adj => adj.any (·.amount == 0)
        | none => false) &&
      (match computeLpMintStable amp p.assets newC supplyBefore p with
        | .ok m => supplyBefore + m == supplyAfter
        | .error _ => false)
  if feeZeroes then some "C02-ss-dilution-fee-zeroes-balance"
  else if off nb || off na then some "C02-ss-dilution-d-inaccurate" else some "C02-ss-dilution"

def monSsLp (amp : Nat) (decimals before after : List Nat) (supplyBefore supplyAfter : Nat) : Verdict :=
  monSsLpF none amp decimals before after supplyBefore supplyAfter

/-- one step of the integer Newton iteration of `calculate_d_core`, with unbounded integers (no
    overflow): `xs` are the balances as passed to `calculate_d_core` -/
def nextDExact (amp : Nat) (xs : List Nat) (d : Nat) : Nat :=
  let n := xs.length
  let sumX := xs.foldl (· + ·) 0
  let dProd := xs.foldl (fun dp a => if a * n == 0 then dp else dp * d / (a * n)) d
  let ann := amp * n * C.A_PRECISION
  let numerator := (ann * sumX / C.A_PRECISION + dProd * n) * d
  let den := (ann - C.A_PRECISION) * d / C.A_PRECISION + (n + 1) * dProd
  if den == 0 then d else numerator / den

/-- the iteration of `calculate_d_core` with unbounded integers: (last iterate, converged?) after at
    most `fuel` steps from `d` -/
def dIterExact (amp : Nat) (xs : List Nat) : Nat → Nat → Nat × Bool
  | 0, d => (d, false)
  | fuel + 1, d =>
    let dn := nextDExact amp xs d
    if absDiff dn d ≤ 1 then (dn, true) else dIterExact amp xs fuel dn

/-- C19 for the invariant value `d` the code returned for the (normalised) balances `xs` of a deposit:
    within two units of the exact root inside the supported range; outside it, accepted only if the
    iteration converged — "never settles on a wrong answer after failing to converge".
    Recorded classes (known findings, both require `d` to be exactly the value the original algorithm
    computes, so that any OTHER wrong value is still a violation):
      F-14 `C19-d-accuracy-minor`: inside the range the integer Newton iteration ends in a rounding cycle or
        stops within one unit of a slightly shifted fixpoint: 2 < |d − exact| ≤ 64 units;
      F-15 `C19-nonconverged-accepted`: outside the range the 255 steps are exhausted and the last iterate is
        returned although it is more than 64 units away from the exact root. -/
def monDepositD (amp : Nat) (xs : List Nat) (d : Nat) : Verdict :=
  if xs.any (· == 0) then none else
  let n := xs.length
  let e := Spec.dFloor (amp * n) xs
  if absDiff d e ≤ 2 then none else
  let (dm, conv) := dIterExact amp xs C.NEWTON_ITERATIONS (xs.foldl (· + ·) 0)
  let mx := (listMax xs).getD 0
  let mn := (listMin xs).getD 0
  let inRange := 2 ≤ n && n ≤ 4 && 1 ≤ amp && amp ≤ 1000000 && mx ≤ 1000 * mn && mx ≤ 10 ^ 42
  if d != dm then some "C19-d-wrong"
  else if absDiff d e ≤ 64 then some "C19-d-accuracy-minor"
  else if inRange then some "C19-d-accuracy"
  else if conv then none
  else some "C19-nonconverged-accepted"

/-- C03 for a stableswap pool that a route went through exactly once (only the reserves before and after are
    observable): if one reserve grew (the hop's offer) and one shrank (what left: net + protocol + burn), the hop is
    judged like a direct swap (`monSsSwap`, with the amount that left standing in for the gross output — the recorded
    rounding class F-03 is about the gross output, so this is the lenient side); a pool from which something left
    while nothing came in lost value outright -/
def monSsPoolD (amp : Nat) (decimals before after : List Nat) : Verdict :=
  let idx := List.range before.length
  let inc := idx.filter fun i => after.getD i 0 > before.getD i 0
  let dec := idx.filter fun i => after.getD i 0 < before.getD i 0
  match inc, dec with
  | [i], [j] =>
    let offer := after.getD i 0 - before.getD i 0
    let out := before.getD j 0 - after.getD j 0
    monSsSwapG false amp decimals before i j offer out out
  | [], [_] => some "C03-ss-invariant"
  | _, _ => none

end MantraDex
