/-
  C09 / C10 monitors on pure observations: the properties' predicates as Bool functions of what the
  implementation returned.
-/
import MantraDex.Model.FarmMath

namespace MantraDex

/-- C10 curve: weight ≥ amount, ≤ 16 × amount -/
def monWeight (a w : Nat) : Bool := a ≤ w && w ≤ 16 * a

/-- C10 curve: monotone in amount and duration -/
def monWeightPair (a d w a' d' w' : Nat) : Bool := !(a ≤ a' && d ≤ d') || w ≤ w'

/-- C10 curve: super-additive at a fixed duration -/
def monWeightAdd (wa wb wab : Nat) : Bool := wa + wb ≤ wab

/-- C09 rate: never above the 90 % cap; zero once unlocked; equals
    min(cap, base × remaining/duration × weight/amount) up to the 18-digit roundings (40 atomics
    below, never above) -/
def monPenaltyRate (p : PosView) (base now w rate : Nat) : Bool :=
  let rem := remainingDuration p now
  let x := base * rem * w
  let y := p.unlockingDuration * p.amount
  rate * 10 ≤ 9 * ONE18 &&
  (!(p.isExpired now) || rate == 0) &&
  (y == 0 ||
    (rate ≤ min C.MAX_PENALTY_CAP ((x + y - 1) / y) &&
     min C.MAX_PENALTY_CAP (x / y) ≤ rate + 40))

/-- C09 rate: never increases as time passes after closing -/
def monPenaltyTime (now rate now' rate' : Nat) : Bool := !(now ≤ now') || rate' ≤ rate

end MantraDex
