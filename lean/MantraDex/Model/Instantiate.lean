/-
  `instantiate` entry points: farm-manager, pool-manager and fee-collector `contract.rs` (the epoch manager's
  is `emInstantiate` in `Model/Epoch.lean`).  `validAddr` stands for `addr_validate`.
-/
import MantraDex.Model.System

namespace MantraDex

structure FmInstantiateMsg where
  owner : Addr
  epochManager : Addr
  feeCollector : Addr
  poolManager : Addr
  createFarmFee : Coin
  maxConcurrentFarms : Nat
  maxFarmEpochBuffer : Nat
  minUnlocking : Nat
  maxUnlocking : Nat
  farmExpirationTime : Nat
  emergencyUnlockPenalty : Nat
  deriving Repr, Inhabited

/-- `cw_ownable::initialize_owner(Some(owner))`: the owner string must validate -/
def initializeOwner (validAddr : Addr → Bool) (owner : Addr) : R Ownership :=
  if validAddr owner then .ok { owner := some owner } else .error .invalidInput

/-- farm-manager `instantiate`: non-zero farm limit, min ≤ max unlocking, expiration ≥ one month, epoch manager and
    fee collector must validate (the pool manager address is taken unchecked), penalty ≤ 100 %, owner must validate -/
def fmInstantiate (validAddr : Addr → Bool) (m : FmInstantiateMsg) : R FmState := do
  if m.maxConcurrentFarms = 0 then .error .invalidInput
  if m.maxUnlocking < m.minUnlocking then .error .invalidInput
  if m.farmExpirationTime < C.MONTH_IN_SECONDS then .error .invalidInput
  if !validAddr m.epochManager then .error .invalidInput
  if !validAddr m.feeCollector then .error .invalidInput
  if m.emergencyUnlockPenalty > ONE18 then .error .invalidInput
  let o ← initializeOwner validAddr m.owner
  let cfg : FmConfig := {
    feeCollector := m.feeCollector, epochManager := m.epochManager, poolManager := m.poolManager,
    createFarmFee := m.createFarmFee, maxConcurrentFarms := m.maxConcurrentFarms,
    maxFarmEpochBuffer := m.maxFarmEpochBuffer, minUnlocking := m.minUnlocking, maxUnlocking := m.maxUnlocking,
    farmExpirationTime := m.farmExpirationTime, emergencyUnlockPenalty := m.emergencyUnlockPenalty }
  pure { config := cfg, owner := o }

/-- pool-manager `instantiate`: both addresses must validate, the sender becomes the owner -/
def pmInstantiate (validAddr : Addr → Bool) (sender feeCollector farmManager : Addr) (creationFee : Coin) : R PmState := do
  if !validAddr feeCollector then .error .invalidInput
  if !validAddr farmManager then .error .invalidInput
  let o ← initializeOwner validAddr sender
  let cfg : PmConfig := { feeCollector := feeCollector, farmManager := farmManager, creationFee := creationFee }
  pure { config := cfg, owner := o }

/-- fee-collector `instantiate`: the sender becomes the owner -/
def fcInstantiate (validAddr : Addr → Bool) (sender : Addr) : R Ownership := initializeOwner validAddr sender

end MantraDex
