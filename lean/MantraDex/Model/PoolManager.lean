/-
  Pool manager handlers: contract.rs, manager/{commands,update_config}.rs, swap/{commands,
  perform_swap}.rs, router/commands.rs, liquidity/commands.rs, queries.rs — as pure functions
  `state → message → (state', Response)`.
-/
import MantraDex.Model.World

namespace MantraDex

structure PmConfig where
  feeCollector : Addr
  farmManager : Addr
  creationFee : Coin
  deriving Repr, DecidableEq, Inhabited

structure SingleSideBuffer where
  receiver : Addr
  expOffer : Coin
  expAsk : Coin
  offerHalf : Coin
  expectedAsk : Coin
  swapSlip : Option Nat
  liqSlip : Option Nat
  poolId : String
  unlocking : Option Nat
  lockId : Option String
  deriving Repr, DecidableEq, Inhabited

structure PmState where
  config : PmConfig
  pools : List PoolInfo := []       -- kept sorted by identifier (storage iteration order)
  counter : Nat := 0
  buffer : Option SingleSideBuffer := none
  owner : Ownership
  deriving Repr, Inhabited

/-- what a pool-manager handler can read from its environment -/
structure PmEnv where
  self : Addr
  nowNs : Nat
  bal : Addr → Denom → Nat
  supply : Denom → Nat
  tfFees : List Coin
  validAddr : Addr → Bool
  /-- farm-manager `Positions{filter_by: Identifier(id)}`: (identifier, receiver) if it exists -/
  fmPosition : String → Option (String × Addr)

def PmState.getPool (s : PmState) (id : String) : R PoolInfo :=
  match s.pools.find? (·.id == id) with
  | some p => .ok p
  | none => .error .notFound

def insertPoolSorted (p : PoolInfo) : List PoolInfo → List PoolInfo
  | [] => [p]
  | x :: xs => if p.id < x.id then p :: x :: xs else x :: insertPoolSorted p xs

def PmState.savePool (s : PmState) (p : PoolInfo) : PmState :=
  if s.pools.any (·.id == p.id) then
    { s with pools := s.pools.map fun q => if q.id == p.id then p else q }
  else { s with pools := insertPoolSorted p s.pools }

/-! ### identifiers and factory denoms -/

def isAsciiAlnum (c : Char) : Bool :=
  (c ≥ 'a' && c ≤ 'z') || (c ≥ 'A' && c ≤ 'Z') || (c ≥ '0' && c ≤ '9')

def poolIdCharOk (c : Char) : Bool := isAsciiAlnum c || c == '/' || c == '.'

/-- helpers.rs `validate_pool_identifier` (`len` is the UTF-8 byte length) -/
def validatePoolIdentifier (id : String) : Bool :=
  id.utf8ByteSize < C.FACTORY_MAX_SUBDENOM_SIZE - C.LP_SYMBOL.utf8ByteSize &&
  id.toList.all poolIdCharOk

/-- coin.rs `is_factory_token` on "factory/<creator>/<subdenom>" given its parts -/
def isFactoryTokenParts (creator subdenom : String) : Bool :=
  subdenom.toList.all poolIdCharOk &&
  subdenom.utf8ByteSize ≤ C.FACTORY_MAX_SUBDENOM_SIZE &&
  7 + 2 + creator.utf8ByteSize + subdenom.utf8ByteSize ≤ 128

/-- `denom.splitn(3, '/')`: `some (creator, subdenom)` for "factory/<creator>/<rest>" -/
def splitFactoryDenom (denom : String) : Option (String × String) :=
  match denom.splitOn "/" with
  | pfx :: creator :: rest =>
    if pfx == "factory" && !rest.isEmpty then some (creator, "/".intercalate rest) else none
  | _ => none

def isFactoryToken (denom : String) : Bool :=
  match splitFactoryDenom denom with
  | some (c, s) => isFactoryTokenParts c s
  | none => false

def lpDenomOf (self : Addr) (id : String) : Denom := s!"factory/{self}/{id}.{C.LP_SYMBOL}"

/-! ### create_pool -/

def paidAmount (funds : List Coin) (denom : Denom) : Nat :=
  -- `try_fold(checked_add).unwrap_or(0)`
  let s := (funds.filter (·.denom == denom)).foldl (fun a c => a + c.amount) 0
  if s ≤ U128_MAX then s else 0

/-- helpers.rs `validate_fees_are_paid` -/
def validateFeesArePaid (creationFee : Coin) (tfFees funds : List Coin) : R (List Coin) := do
  let funds ← aggregateCoins funds
  let total :=
    match tfFees.find? (·.denom == creationFee.denom) with
    | some f => if f.amount + creationFee.amount ≤ U128_MAX then f.amount + creationFee.amount else 0
    | none => creationFee.amount
  let paid := paidAmount funds creationFee.denom
  if paid ≠ total then .error .payment else
  let rest ← (tfFees.filter (·.denom != creationFee.denom)).mapM fun f =>
    if paidAmount funds f.denom = f.amount then pure (⟨f.denom, f.amount⟩ : Coin) else .error .payment
  pure (⟨creationFee.denom, paid⟩ :: rest)

/-- helpers.rs `validate_no_additional_funds_sent_with_pool_creation` -/
def validateNoAdditionalFunds (funds totalFees : List Coin) : R Unit := do
  let agg ← aggregateCoins funds
  if agg.any (fun f => !totalFees.any (fun t => t.denom == f.denom && t.amount == f.amount))
  then .error .payment else pure ()

def hasDuplicates : List String → Bool
  | [] => false
  | x :: xs => xs.contains x || hasDuplicates xs

def createPool (s : PmState) (env : PmEnv) (funds : List Coin) (denoms : List Denom)
    (decimals : List Nat) (fees : PoolFee) (ptype : PoolType) (id : Option String) :
    R (PmState × Response) := do
  if denoms.isEmpty || denoms.length < C.MIN_ASSETS_PER_POOL || denoms.length != decimals.length then
    .error .mismatch
  match ptype with
  | .stable amp => if amp = 0 then .error .invalidInput
  | .cp => if denoms.length != 2 then .error .mismatch
  if denoms.length > C.MAX_ASSETS_PER_POOL then .error .invalidInput
  let totalFees ← validateFeesArePaid s.config.creationFee env.tfFees funds
  validateNoAdditionalFunds funds totalFees
  let feeMsgs : List Msg :=
    if s.config.creationFee.amount ≠ 0 then [.bankSend s.config.feeCollector [s.config.creationFee]] else []
  if hasDuplicates denoms then .error .mismatch
  if !poolFeeValid fees then .error .invalidInput
  let (identifier, counter) := match id with
    | some i => (C.EXPLICIT_POOL_ID_PREFIX ++ i, s.counter)
    | none => (C.AUTO_POOL_ID_PREFIX ++ toString (s.counter + 1), s.counter + 1)
  if counter > U64_MAX then .error .panic
  if !validatePoolIdentifier identifier then .error .invalidInput
  if s.pools.any (·.id == identifier) then .error .exists_
  let lpSymbol := identifier ++ "." ++ C.LP_SYMBOL
  let lp := lpDenomOf env.self identifier
  if !isFactoryTokenParts env.self lpSymbol then .error .invalidInput
  let pool : PoolInfo := {
    id := identifier, denoms := denoms, lpDenom := lp, decimals := decimals,
    assets := denoms.map fun d => ⟨d, 0⟩, ptype := ptype, fees := fees, status := {} }
  let s' := ({ s with counter := counter }).savePool pool
  pure (s', Response.ofMsgs (feeMsgs ++ [.tfCreateDenom lpSymbol]))

/-! ### swaps -/

structure SwapResult where
  ret : Coin
  burnFee : Coin
  protocolFee : Coin
  swapFee : Coin
  extraFees : Coin
  pool : PoolInfo
  slippage : Nat
  deriving Repr, Inhabited

/-- swap/perform_swap.rs `perform_swap` -/
def performSwap (s : PmState) (offer : Coin) (askDenom : Denom) (poolId : String)
    (belief maxSlip : Option Nat) : R (PmState × SwapResult) := do
  let pool ← s.getPool poolId
  let (_, _, oi, ai, _, _) ← getAssetIndexes pool offer.denom askDenom
  let c ← computeSwap pool offer askDenom
  assertMaxSlippage belief maxSlip offer.amount c.ret c.slippage
  let oc ← getD? pool.assets oi
  let newOffer ← ckAdd U128_MAX oc.amount offer.amount
  let assets1 := setAmount pool.assets oi newOffer
  let outgoing ← ckAdd U128_MAX c.protocolFee c.burnFee
  let ac ← getD? assets1 ai
  let a1 ← ckSub ac.amount c.ret
  let a2 ← ckSub a1 outgoing
  let assets2 := setAmount assets1 ai a2
  let pool' := { pool with assets := assets2 }
  pure (s.savePool pool',
    { ret := ⟨askDenom, c.ret⟩, burnFee := ⟨askDenom, c.burnFee⟩, protocolFee := ⟨askDenom, c.protocolFee⟩,
      swapFee := ⟨askDenom, c.swapFee⟩, extraFees := ⟨askDenom, c.extraFees⟩, pool := pool',
      slippage := c.slippage })

/-- `cw_utils::one_coin` -/
def oneCoin (funds : List Coin) : R Coin :=
  match funds with
  | [c] => if c.amount = 0 then .error .payment else .ok c
  | _ => .error .payment

/-- `cw_utils::must_pay` -/
def mustPay (funds : List Coin) (denom : Denom) : R Nat := do
  let c ← oneCoin funds
  if c.denom != denom then .error .payment else pure c.amount

def nonpayable (funds : List Coin) : R Unit :=
  if funds.isEmpty then .ok () else .error .payment

def addrOrDefault (env : PmEnv) (r : Option Addr) (dflt : Addr) : Addr :=
  match r with
  | none => dflt
  | some a => if env.validAddr a then a else dflt

def reservesAttr (p : PoolInfo) : String :=
  ",".intercalate (p.assets.map fun c => s!"{c.amount}{c.denom}")

/-- swap/commands.rs `swap` -/
def swapHandler (s : PmState) (env : PmEnv) (sender : Addr) (funds : List Coin) (askDenom : Denom)
    (belief maxSlip : Option Nat) (receiver : Option Addr) (poolId : String) :
    R (PmState × Response) := do
  let pool ← s.getPool poolId
  if !pool.status.swaps then .error .disabled
  let offer ← oneCoin funds
  if offer.denom == askDenom then .error .mismatch
  if !([askDenom, offer.denom].all fun d => pool.assets.any (·.denom == d)) then .error .mismatch
  let (s', r) ← performSwap s offer askDenom poolId belief maxSlip
  let recv := addrOrDefault env receiver sender
  let m1 : List Msg := if r.ret.amount ≠ 0 then [.bankSend recv [r.ret]] else []
  let m2 : List Msg := if r.burnFee.amount ≠ 0 then [.bankBurn [r.burnFee]] else []
  let m3 : List Msg := if r.protocolFee.amount ≠ 0 then [.bankSend s.config.feeCollector [r.protocolFee]] else []
  pure (s', Response.ofMsgs (m1 ++ m2 ++ m3) [
    ("action", "swap"), ("return_amount", toString r.ret.amount), ("slippage_amount", toString r.slippage),
    ("swap_fee_amount", toString r.swapFee.amount), ("protocol_fee_amount", toString r.protocolFee.amount),
    ("burn_fee_amount", toString r.burnFee.amount), ("extra_fees_amount", toString r.extraFees.amount),
    ("pool_reserves", reservesAttr r.pool)])

/-- router/commands.rs `assert_operations` -/
def assertOperations (ops : List SwapOp) : R Unit :=
  match ops with
  | [] => .error .invalidInput
  | o :: _ =>
    let rec go (prev : Denom) : List SwapOp → R Unit
      | [] => .ok ()
      | x :: xs => if x.tokenIn != prev then .error .invalidInput else go x.tokenOut xs
    go o.tokenIn ops

/-- the hop loop of `execute_swap_operations` -/
def routeHops (s : PmState) (maxSlip : Option Nat) :
    List SwapOp → Coin → List Msg → R (PmState × Coin × List Msg)
  | [], prev, fees => .ok (s, prev, fees)
  | op :: ops, prev, fees => do
    let pool ← s.getPool op.poolId
    if !pool.status.swaps then .error .disabled
    let (s', r) ← performSwap s prev op.tokenOut op.poolId none maxSlip
    let m2 : List Msg := if r.burnFee.amount ≠ 0 then [.bankBurn [r.burnFee]] else []
    let m3 : List Msg := if r.protocolFee.amount ≠ 0 then [.bankSend s.config.feeCollector [r.protocolFee]] else []
    routeHops s' maxSlip ops r.ret (fees ++ m2 ++ m3)

/-- router/commands.rs `execute_swap_operations` -/
def execSwapOps (s : PmState) (env : PmEnv) (sender : Addr) (funds : List Coin) (ops : List SwapOp)
    (minReceive : Option Nat) (receiver : Option Addr) (maxSlip : Option Nat) :
    R (PmState × Response) := do
  let last ← match ops.getLast? with | some o => pure o | none => .error .invalidInput
  let first ← match ops.head? with | some o => pure o | none => .error .invalidInput
  let amount ← mustPay funds first.tokenIn
  assertOperations ops
  let recv := addrOrDefault env receiver sender
  let (s', out, feeMsgs) ← routeHops s maxSlip ops ⟨first.tokenIn, amount⟩ []
  match minReceive with
  | some m => if out.amount < m then .error .minReceive
  | none => pure ()
  let m1 : List Msg := if out.amount ≠ 0 then [.bankSend recv [⟨last.tokenOut, out.amount⟩]] else []
  pure (s', Response.ofMsgs (m1 ++ feeMsgs) [("action", "execute_swap_operations"),
    ("return_amount", toString out.amount)])

/-! ### liquidity -/

def isqrt256 (n : Nat) : Nat := isqrt n

/-- constant-product share computation of `provide_liquidity` -/
def cpShares (self : Addr) (lp : Denom) (deposits poolAssets : List Coin) (totalShares : Nat) :
    R (Nat × List Msg) := do
  if totalShares = 0 then
    let d0 ← getD? deposits 0
    let d1 ← getD? deposits 1
    let prod := d0.amount * d1.amount
    if prod > U256_MAX then .error .other
    let share := isqrt256 prod - C.MINIMUM_LIQUIDITY_AMOUNT
    if share = 0 then .error .invalidInput
    pure (share, [.tfMint ⟨lp, C.MINIMUM_LIQUIDITY_AMOUNT⟩ self])
  else
    let shares ← deposits.mapM fun d => do
      let i ← match findIdx (fun c : Coin => c.denom == d.denom) poolAssets with
        | some i => pure i | none => .error .mismatch
      let pa ← getD? poolAssets i
      orPanic (mulRatio U128_MAX d.amount totalShares pa.amount)
    let s0 ← getD? shares 0
    let s1 ← getD? shares 1
    pure (min s0 s1, [])

/-- liquidity/commands.rs `provide_liquidity` -/
def provideLiquidity (s : PmState) (env : PmEnv) (sender : Addr) (funds : List Coin)
    (liqSlip swapSlip : Option Nat) (receiver : Option Addr) (poolId : String)
    (unlocking : Option Nat) (lockId : Option String) : R (PmState × Response) := do
  let pool ← s.getPool poolId
  if !pool.status.deposits then .error .disabled
  let poolAssets := pool.assets
  let deposits ← aggregateCoins funds
  if deposits.isEmpty then .error .invalidInput
  if !(deposits.all fun a => poolAssets.any (·.denom == a.denom)) then .error .mismatch
  let recv := addrOrDefault env receiver sender
  if deposits.length = 1 then
    if unlocking.isSome && recv != sender then .error .unauthorized
    if poolAssets.any (·.amount == 0) then .error .invalidInput
    if poolAssets.length != 2 then .error .invalidInput
    let deposit ← getD? deposits 0
    let askDenom ← match poolAssets.find? (·.denom != deposit.denom) with
      | some c => pure c.denom | none => .error .mismatch
    let half : Coin := ⟨deposit.denom, deposit.amount / 2⟩
    let sim ← computeSwap pool half askDenom
    let expOffer : Coin := ⟨deposit.denom, env.bal env.self deposit.denom⟩
    let outgoing ← ckAdd U128_MAX sim.protocolFee sim.burnFee
    let expAsk : Coin := ⟨askDenom, env.bal env.self askDenom - outgoing⟩
    if expAsk.amount = 0 then .error .slippage
    let buf : SingleSideBuffer := {
      receiver := recv, expOffer := expOffer, expAsk := expAsk, offerHalf := half,
      expectedAsk := ⟨askDenom, sim.ret⟩, swapSlip := swapSlip, liqSlip := liqSlip, poolId := poolId,
      unlocking := unlocking, lockId := lockId }
    pure ({ s with buffer := some buf },
      { msgs := [{ msg := .wasmExec env.self (.pm (.swap askDenom none swapSlip none poolId)) [half],
                   replyOn := .success, id := C.SINGLE_SIDE_REPLY_ID }],
        attrs := [("action", "single_side_liquidity_provision")] })
  else
    let lp := pool.lpDenom
    if !isFactoryToken lp then .error .other
    let totalShares := env.supply lp
    let (shares, msgs0) ← match pool.ptype with
      | .cp => cpShares env.self lp deposits poolAssets totalShares
      | .stable amp => do
        let msgs0 ← if totalShares = 0 then do
            if !(poolAssets.length == deposits.length &&
                 deposits.all fun a => poolAssets.any fun pa => pa.denom == a.denom && a.amount > 0)
              then .error .mismatch
            let minD ← match listMin pool.decimals with | some m => pure m | none => .error .panic
            let maxD ← match listMax pool.decimals with | some m => pure m | none => .error .panic
            let ml ← minLiquidityStable minD maxD
            pure [Msg.tfMint ⟨lp, ml⟩ env.self]
          else pure []
        let newAssets ← addCoins poolAssets deposits
        let shares ← computeLpMintStable amp poolAssets newAssets totalShares pool
        pure (shares, msgs0)
    let poolAssets' ← assertSlippageTolerance liqSlip deposits poolAssets pool.ptype
    let msgs1 ← match unlocking with
      | some u => do
        if !(recv == sender || sender == env.self) then .error .unauthorized
        let mintSelf : Msg := .tfMint ⟨lp, shares⟩ env.self
        let lockMsg ← match lockId with
          | some pid =>
            match env.fmPosition pid with
            | some (id, r) =>
              if !(id == pid && r == recv) then .error .unauthorized
              else pure (Msg.wasmExec s.config.farmManager (.fm (.expandPosition pid)) [⟨lp, shares⟩])
            | none =>
              pure (Msg.wasmExec s.config.farmManager (.fm (.createPosition (some pid) u (some recv))) [⟨lp, shares⟩])
          | none =>
            pure (Msg.wasmExec s.config.farmManager (.fm (.createPosition none u (some recv))) [⟨lp, shares⟩])
        pure [mintSelf, lockMsg]
      | none =>
        if !env.validAddr recv then .error .invalidInput
        else pure [Msg.tfMint ⟨lp, shares⟩ recv]
    let assets' ← deposits.foldlM (fun as d => do
      let i ← match findIdx (fun c : Coin => c.denom == d.denom) as with
        | some i => pure i | none => .error .mismatch
      let c ← getD? as i
      let a ← ckAdd U128_MAX c.amount d.amount
      pure (setAmount as i a)) poolAssets'
    let pool' := { pool with assets := assets' }
    pure (s.savePool pool', Response.ofMsgs (msgs0 ++ msgs1) [
      ("action", "provide_liquidity"), ("added_shares", toString shares),
      ("pool_reserves", reservesAttr pool')])

/-- liquidity/commands.rs `withdraw_liquidity` -/
def withdrawLiquidity (s : PmState) (env : PmEnv) (sender : Addr) (funds : List Coin)
    (poolId : String) : R (PmState × Response) := do
  let pool ← s.getPool poolId
  if !pool.status.withdrawals then .error .disabled
  let lp := pool.lpDenom
  let amount ← mustPay funds lp
  if !isFactoryToken lp then .error .other
  let total := env.supply lp
  let ratio ← orPanic (decFromRatio U256_MAX amount total)
  if ratio > ONE18 then .error .invalidInput
  -- ⌊reserve · amount / total_shares⌋ (`checked_multiply_ratio`; the F-02 fix)
  let refunds ← pool.assets.mapM fun a => do
    let r ← mulRatio U128_MAX a.amount amount total
    pure (⟨a.denom, r⟩ : Coin)
  let refunds := refunds.filter (·.amount > 0)
  let assets' ← refunds.foldlM (fun as r => do
    let i ← match findIdx (fun c : Coin => c.denom == r.denom) as with
      | some i => pure i | none => .error .mismatch
    let c ← getD? as i
    let a ← ckSub c.amount r.amount
    pure (setAmount as i a)) pool.assets
  let pool' := { pool with assets := assets' }
  pure (s.savePool pool', Response.ofMsgs [.bankSend sender refunds, .tfBurn ⟨lp, amount⟩] [
    ("action", "withdraw_liquidity"), ("withdrawn_shares", toString amount),
    ("pool_reserves", reservesAttr pool')])

/-- manager/update_config.rs `update_config` -/
def pmUpdateConfig (s : PmState) (env : PmEnv) (sender : Addr) (feeCollector farmManager : Option Addr)
    (creationFee : Option Coin) (toggle : Option FeatureToggle) : R (PmState × Response) := do
  s.owner.assertOwner sender
  let cfg := s.config
  let cfg ← match feeCollector with
    | some a => if env.validAddr a then pure { cfg with feeCollector := a } else .error .invalidInput
    | none => pure cfg
  let cfg ← match farmManager with
    | some a => if env.validAddr a then pure { cfg with farmManager := a } else .error .invalidInput
    | none => pure cfg
  let cfg := match creationFee with | some f => { cfg with creationFee := f } | none => cfg
  let s1 ← match toggle with
    | some t => do
      let p ← s.getPool t.poolId
      let st := p.status
      let st := match t.swaps with | some b => { st with swaps := b } | none => st
      let st := match t.deposits with | some b => { st with deposits := b } | none => st
      let st := match t.withdrawals with | some b => { st with withdrawals := b } | none => st
      pure (s.savePool { p with status := st })
    | none => pure s
  pure ({ s1 with config := cfg }, { attrs := [("action", "update_config")] })

/-- contract.rs `execute` -/
def pmExecute (s : PmState) (env : PmEnv) (sender : Addr) (funds : List Coin) (m : PmMsg) :
    R (PmState × Response) :=
  match m with
  | .createPool denoms decimals fees ptype id => createPool s env funds denoms decimals fees ptype id
  | .provideLiquidity ls ss r pid u l => provideLiquidity s env sender funds ls ss r pid u l
  | .swap ask b ms r pid => swapHandler s env sender funds ask b ms r pid
  | .withdrawLiquidity pid => withdrawLiquidity s env sender funds pid
  | .execSwapOps ops mr r ms => execSwapOps s env sender funds ops mr r ms
  | .updateConfig fc fm cf t => do
    nonpayable funds
    pmUpdateConfig s env sender fc fm cf t
  | .updateOwnership a => do
    nonpayable funds
    let o ← s.owner.update env.validAddr env.nowNs sender a
    pure ({ s with owner := o }, { attrs := [("action", "update_ownership")] })

/-- contract.rs `reply` -/
def pmReply (s : PmState) (env : PmEnv) (id : Nat) : R (PmState × Response) :=
  if id = C.SINGLE_SIDE_REPLY_ID then
    match s.buffer with
    | none => .error .notFound
    | some b =>
      if env.bal env.self b.expOffer.denom ≠ b.expOffer.amount then .error .invalidInput else
      if env.bal env.self b.expAsk.denom ≠ b.expAsk.amount then .error .invalidInput else
      .ok ({ s with buffer := none },
        Response.ofMsgs [.wasmExec env.self
          (.pm (.provideLiquidity b.liqSlip b.swapSlip (some b.receiver) b.poolId b.unlocking b.lockId))
          [b.offerHalf, b.expectedAsk]])
  else .error .other

/-! ### queries used by the properties -/

/-- queries.rs `query_simulation` -/
def querySimulation (s : PmState) (offer : Coin) (askDenom : Denom) (poolId : String) :
    R SwapComputation := do
  let pool ← s.getPool poolId
  computeSwap pool offer askDenom

/-- queries.rs `simulate_swap_operations`: chains simulations against the *unchanged* state -/
def simulateSwapOps (s : PmState) (offerAmount : Nat) (ops : List SwapOp) : R Nat :=
  if ops.isEmpty then .error .invalidInput else
  ops.foldlM (fun amt op => do
    let r ← querySimulation s ⟨op.tokenIn, amt⟩ op.tokenOut op.poolId
    pure r.ret) offerAmount

/-- queries.rs `query_reverse_simulation`, constant-product branch -/
def queryReverseSimulationCP (s : PmState) (ask : Coin) (offerDenom : Denom) (poolId : String) :
    R OfferAmountComputation := do
  let pool ← s.getPool poolId
  let (oc, ac, _, _, _, _) ← getAssetIndexes pool offerDenom ask.denom
  match pool.ptype with
  | .cp => computeOfferAmount oc.amount ac.amount ask.amount pool.fees
  | .stable _ => .error .other

end MantraDex
