/-
  Num — exact semantics of the cosmwasm-std 2.2.2 integer and fixed-point types used by the
  contracts, as total functions on `Nat` with explicit range checks.  Overflow, underflow and
  division by zero are *errors* (never wrap, never default).  A Rust `panic!`/`unwrap()` and a
  returned `Err` both reject the transaction; they are kept distinct only so the correspondence
  check can report which one the code produced.

  No imports: this file is part of the native driver.
-/
namespace MantraDex

/-- Small error enum: the canonical error classes of DESIGN §5.1. -/
inductive Err where
  | overflow | divZero | underflow | panic
  | unauthorized | ownership | payment | disabled | slippage | minReceive
  | mismatch | invalidInput | notFound | exists_ | limit | converge | exhausted
  | pendingRewards | notExpired | bank | other
  deriving Repr, DecidableEq, Inhabited

def Err.toString : Err → String
  | .overflow => "overflow" | .divZero => "divzero" | .underflow => "underflow" | .panic => "panic"
  | .unauthorized => "unauthorized" | .ownership => "ownership" | .payment => "payment"
  | .disabled => "disabled" | .slippage => "slippage" | .minReceive => "min_receive"
  | .mismatch => "mismatch" | .invalidInput => "invalid_input" | .notFound => "not_found"
  | .exists_ => "exists" | .limit => "limit" | .converge => "converge" | .exhausted => "exhausted"
  | .pendingRewards => "pending_rewards" | .notExpired => "not_expired" | .bank => "bank"
  | .other => "other"

instance : ToString Err := ⟨Err.toString⟩

abbrev R (α : Type) := Except Err α

deriving instance DecidableEq for Except

/-- a Rust `unwrap()` / panicking operator applied to a checked operation: any failure is a panic -/
@[inline] def orPanic {α : Type} (r : R α) : R α :=
  match r with
  | .ok x => .ok x
  | .error _ => .error .panic

def U64_MAX  : Nat := 2^64 - 1
def U128_MAX : Nat := 2^128 - 1
def U256_MAX : Nat := 2^256 - 1
def U512_MAX : Nat := 2^512 - 1

/-- 10^18: one whole unit of a `Decimal` / `Decimal256`. -/
def ONE18 : Nat := 1000000000000000000

/-- range check: `x` fits in `max`, else the given error -/
@[inline] def fit (max : Nat) (x : Nat) (e : Err := .overflow) : R Nat :=
  if x ≤ max then .ok x else .error e

@[inline] def ckAdd (max a b : Nat) : R Nat := fit max (a + b)
@[inline] def ckMul (max a b : Nat) : R Nat := fit max (a * b)
@[inline] def ckSub (a b : Nat) : R Nat := if b ≤ a then .ok (a - b) else .error .underflow
@[inline] def ckDiv (a b : Nat) : R Nat := if b = 0 then .error .divZero else .ok (a / b)
@[inline] def ckRem (a b : Nat) : R Nat := if b = 0 then .error .divZero else .ok (a % b)

/-- `UintN::checked_multiply_ratio(num, den)` = ⌊a·num/den⌋ via a double-width product. -/
@[inline] def mulRatio (max a num den : Nat) : R Nat :=
  if den = 0 then .error .divZero else fit max (a * num / den)

/-- `UintN::checked_mul_floor((num, den))` (same arithmetic as `mulRatio`). -/
@[inline] def mulFloorFrac (max a num den : Nat) : R Nat := mulRatio max a num den
/-- `UintN::checked_div_floor((num, den))` = ⌊a·den/num⌋. -/
@[inline] def divFloorFrac (max a num den : Nat) : R Nat := mulRatio max a den num

/-- integer square root (floor): core `Nat.sqrt` (`Nat.sqrt_le`, `Nat.lt_succ_sqrt`). -/
@[inline] def isqrt (n : Nat) : Nat := Nat.sqrt n

/-! ### Decimal / Decimal256 as atomics (scale 10^18) -/

/-- `Decimal*::checked_from_ratio(n, d)` = ⌊n·10^18/d⌋ (atomics). -/
@[inline] def decFromRatio (max n d : Nat) : R Nat :=
  if d = 0 then .error .divZero else fit max (n * ONE18 / d)

/-- `Decimal*::checked_mul` on atomics: ⌊a·b/10^18⌋. -/
@[inline] def decMul (max a b : Nat) : R Nat := fit max (a * b / ONE18)

/-- `Decimal*::checked_div` on atomics: ⌊a·10^18/b⌋. -/
@[inline] def decDiv (max a b : Nat) : R Nat := decFromRatio max a b

/-- `Decimal*::to_uint_floor`. -/
@[inline] def decFloor (a : Nat) : Nat := a / ONE18

/-- `Decimal*::inv`: `None` on zero. -/
@[inline] def decInv (a : Nat) : Option Nat := if a = 0 then none else some (ONE18 * ONE18 / a)

/-- `Decimal256::from_atomics(atomics, places)` incl. the lossy `places > 18` branch. -/
def decFromAtomics (max atomics places : Nat) : R Nat :=
  if places < 18 then fit max (atomics * 10 ^ (18 - places))
  else if places = 18 then .ok atomics
  else
    let f := 10 ^ (places - 18)
    if f ≤ max then .ok (atomics / f) else .ok 0

/-- `Decimal*::checked_pow(2)`: `x*x` floored, then `* one`. -/
@[inline] def decPow2 (max a : Nat) : R Nat := decMul max a a

/-- repo `Decimal256Helper::decimal_with_precision`. -/
@[inline] def decWithPrecision (value precision : Nat) : R Nat :=
  decFromAtomics U256_MAX value precision

/-- repo `Decimal256Helper::to_uint256_with_precision`: `18 - precision` underflows (panic) for
    precision > 18 (overflow checks are on in every profile of the workspace). -/
@[inline] def decToUintWithPrecision (a precision : Nat) : R Nat :=
  if precision > 18 then .error .panic else .ok (a / 10 ^ (18 - precision))

/-- repo `Decimal256Helper::checked_multiply_ratio` on atomics. -/
@[inline] def decMulRatio (a num den : Nat) : R Nat := mulRatio U256_MAX a num den

@[inline] def absDiff (a b : Nat) : Nat := if a ≥ b then a - b else b - a

end MantraDex
