/-
  Farm-manager numerics: position/helpers.rs `calculate_weight`, `calculate_emergency_penalty`
  (+ `get_position_remaining_duration`), and the penalty split arithmetic of
  position/commands.rs `withdraw_position`.
-/
import MantraDex.Model.Num
import MantraDex.Generated.Consts

namespace MantraDex

/-- the three `Decimal256` coefficients of the weight polynomial for an unlocking duration `d`:
    (quadratic part, linear part, constant part), as atomics -/
def weightParts (d : Nat) : R (Nat × Nat × Nat) := do
  let durDec ← fit U256_MAX (d * ONE18) .panic
  let sq ← decPow2 U256_MAX durDec
  let mul ← decMul U256_MAX sq C.WEIGHT_C2_NUM
  let part ← decDiv U256_MAX mul C.WEIGHT_C2_DEN
  let nm ← decMul U256_MAX durDec C.WEIGHT_C1_NUM
  let next ← decDiv U256_MAX nm C.WEIGHT_C1_DEN
  let fin ← orPanic (decFromRatio U256_MAX C.WEIGHT_C0_NUM C.WEIGHT_C0_DEN)
  pure (part, next, fin)

/-- multiplier (Decimal256 atomics) applied to the amount -/
def weightMultiplier (d : Nat) : R Nat := do
  let (a, b, c) ← weightParts d
  let s ← ckAdd U256_MAX a b
  ckAdd U256_MAX s c

/-- position/helpers.rs `calculate_weight(lp_asset, unlocking_duration)` -/
def calculateWeight (amount d : Nat) : R Nat :=
  if d < C.SECONDS_IN_DAY || d > C.SECONDS_IN_YEAR then .error .invalidInput else do
    let amtDec ← fit U256_MAX (amount * ONE18) .panic
    let m ← weightMultiplier d
    let prod ← decMul U256_MAX amtDec m
    let w ← fit U128_MAX (prod / ONE18)
    pure (max w amount)

/-- `Position` fields the penalty depends on -/
structure PosView where
  amount : Nat
  unlockingDuration : Nat
  expiringAt : Option Nat
  deriving Repr, DecidableEq, Inhabited

/-- `Position::is_expired(now)`: closed and `expiring_at ≤ now` -/
def PosView.isExpired (p : PosView) (now : Nat) : Bool :=
  match p.expiringAt with
  | some e => e ≤ now
  | none => false

/-- `get_position_remaining_duration`: time left once closed (saturating), the full unlocking
    duration while open -/
def remainingDuration (p : PosView) (now : Nat) : Nat :=
  match p.expiringAt with
  | some e => e - now
  | none => p.unlockingDuration

/-- position/helpers.rs `calculate_emergency_penalty` (all `Decimal`s are 128-bit) -/
def calculateEmergencyPenalty (p : PosView) (base now : Nat) : R Nat :=
  if p.unlockingDuration = 0 then .error .invalidInput else do
  let rem ← orPanic (decFromRatio U128_MAX (remainingDuration p now) p.unlockingDuration)
  let w ← calculateWeight p.amount p.unlockingDuration
  let mult ← decDiv U128_MAX w p.amount
  let e1 ← decMul U128_MAX base rem
  let e2 ← decMul U128_MAX e1 mult
  pure (min e2 C.MAX_PENALTY_CAP)

structure PenaltySplit where
  total : Nat            -- total penalty fee
  ownerPayout : Nat      -- what the position owner receives
  perFarmOwner : Nat     -- share sent to *each* unique active farm owner (0 = none sent)
  nFarmOwners : Nat      -- how many such transfers
  feeCollector : Nat     -- sent to the fee collector (0 = no message)
  deriving Repr, DecidableEq, Inhabited

/-- the arithmetic of the emergency branch of `withdraw_position`, given the penalty rate and
    the number of unique owners of currently active farms on the LP denom -/
def penaltySplit (amount penalty nOwners : Nat) : R PenaltySplit := do
  -- `Decimal::from_ratio(amount, 1)` panics when amount·10^18 ≥ 2^128
  let a18 ← fit U128_MAX (amount * ONE18) .panic
  let tp ← decMul U128_MAX a18 penalty
  let total := decFloor tp
  if total ≥ amount then .error .invalidInput else do
  let t18 ← fit U128_MAX (total * ONE18) .panic
  let oc ← decMul U128_MAX t18 C.PENALTY_FEE_SHARE
  let ownerCommission := decFloor oc
  let fc0 := total - ownerCommission
  if nOwners = 0 then
    pure ⟨total, amount - total, 0, 0, total⟩
  else do
    let perDec ← orPanic (decFromRatio U128_MAX ownerCommission nOwners)
    let per := decFloor perDec
    if per > 0 then pure ⟨total, amount - total, per, nOwners, fc0⟩
    else pure ⟨total, amount - total, 0, 0, total⟩

end MantraDex
