/-
  Pool numerics: contracts/pool-manager/src/helpers.rs (+ math.rs, swap/perform_swap.rs
  `assert_max_slippage`, mantra-dex-std `Fee::compute`, `PoolFee::is_valid`, `add_coins`), line for
  line.  Amounts are `Nat` with explicit width checks; `Decimal`/`Decimal256` values are atomics.
-/
import MantraDex.Model.Num
import MantraDex.Generated.Consts

namespace MantraDex

structure Coin where
  denom : String
  amount : Nat
  deriving Repr, DecidableEq, Inhabited

/-- `PoolFee`: shares are `Decimal` atomics (128-bit). -/
structure PoolFee where
  protocol : Nat
  swap : Nat
  burn : Nat
  extra : List Nat
  deriving Repr, DecidableEq, Inhabited

inductive PoolType where
  | cp
  | stable (amp : Nat)
  deriving Repr, DecidableEq, Inhabited

structure PoolStatus where
  swaps : Bool := true
  deposits : Bool := true
  withdrawals : Bool := true
  deriving Repr, DecidableEq, Inhabited

structure PoolInfo where
  id : String
  denoms : List String        -- asset_denoms
  lpDenom : String
  decimals : List Nat         -- asset_decimals (u8)
  assets : List Coin          -- reserves, intended to be aligned with `denoms`
  ptype : PoolType
  fees : PoolFee
  status : PoolStatus
  deriving Repr, DecidableEq, Inhabited

/-! ### fees -/

/-- `Fee::compute(amount : Uint256)` = ⌊amount·share⌋: `from_ratio(amount,1)` panics when
    amount·10^18 overflows 256 bits; the product is checked. -/
def feeCompute (share amount : Nat) : R Nat := do
  let a ← fit U256_MAX (amount * ONE18) .panic
  let p ← decMul U256_MAX a share
  pure (decFloor p)

/-- `Fee::is_valid`: share < 100 % -/
def feeValid (share : Nat) : Bool := share < ONE18

/-- `PoolFee::is_valid`: each fee < 100 %, total ≤ 20 % (`Decimal +=` panics on overflow, which
    cannot happen for shares < 1). -/
def poolFeeValid (f : PoolFee) : Bool :=
  let all := [f.protocol, f.swap, f.burn] ++ f.extra
  all.all feeValid && all.foldl (· + ·) 0 ≤ C.MAX_TOTAL_FEE_PERCENT

structure FeesComputation where
  swap : Nat
  protocol : Nat
  burn : Nat
  extra : Nat
  deriving Repr, DecidableEq, Inhabited

/-- helpers.rs `compute_fees` -/
def computeFees (f : PoolFee) (amount : Nat) : R FeesComputation := do
  let s ← feeCompute f.swap amount
  let p ← feeCompute f.protocol amount
  let b ← feeCompute f.burn amount
  let e ← f.extra.foldlM (fun acc sh => do
    let x ← feeCompute sh amount
    ckAdd U256_MAX acc x) 0
  pure ⟨s, p, b, e⟩

structure SwapComputation where
  ret : Nat        -- return_amount (net of all fees)
  slippage : Nat
  swapFee : Nat
  protocolFee : Nat
  burnFee : Nat
  extraFees : Nat
  deriving Repr, DecidableEq, Inhabited

/-- helpers.rs `get_swap_computation` -/
def getSwapComputation (gross slippage : Nat) (fc : FeesComputation) : R SwapComputation := do
  let r ← ckSub gross fc.swap
  let r ← ckSub r fc.protocol
  let r ← ckSub r fc.burn
  let r ← ckSub r fc.extra
  let s ← ckAdd U256_MAX slippage fc.swap
  let s ← ckAdd U256_MAX s fc.protocol
  let s ← ckAdd U256_MAX s fc.burn
  let s ← ckAdd U256_MAX s fc.extra
  let r ← fit U128_MAX r
  let s ← fit U128_MAX s
  let a ← fit U128_MAX fc.swap
  let b ← fit U128_MAX fc.protocol
  let c ← fit U128_MAX fc.burn
  let d ← fit U128_MAX fc.extra
  pure ⟨r, s, a, b, c, d⟩

/-! ### list helpers -/

def findIdx (p : α → Bool) : List α → Option Nat
  | [] => none
  | x :: xs => if p x then some 0 else (findIdx p xs).map (· + 1)

def listMax : List Nat → Option Nat
  | [] => none
  | x :: xs => some (xs.foldl max x)

def listMin : List Nat → Option Nat
  | [] => none
  | x :: xs => some (xs.foldl min x)

def getD? (xs : List α) (i : Nat) : R α :=
  match xs[i]? with
  | some x => .ok x
  | none => .error .panic      -- Rust index out of bounds

/-- helpers.rs `get_asset_indexes_in_pool`:
    (offer coin, ask coin, offer index, ask index, offer decimals, ask decimals) -/
def getAssetIndexes (p : PoolInfo) (offerDenom askDenom : String) :
    R (Coin × Coin × Nat × Nat × Nat × Nat) := do
  let oi ← match findIdx (fun c : Coin => c.denom == offerDenom) p.assets with
    | some i => pure i | none => .error .mismatch
  let ai ← match findIdx (fun c : Coin => c.denom == askDenom) p.assets with
    | some i => pure i | none => .error .mismatch
  if oi == ai then .error .mismatch else
  let oc ← getD? p.assets oi
  let ac ← getD? p.assets ai
  let od ← getD? p.decimals oi
  let ad ← getD? p.decimals ai
  pure (oc, ac, oi, ai, od, ad)

/-! ### Newton iteration (helpers.rs `newton_raphson_iterate`) -/

def newtonIter (fuel : Nat) (thr : Nat) (f : Nat → R Nat) (cur : Nat) : R Nat :=
  match fuel with
  | 0 => .error .converge
  | fuel + 1 => do
    let nxt ← f cur
    if absDiff nxt cur ≤ thr then pure nxt else newtonIter fuel thr f nxt

/-! ### stableswap: D in Decimal256 (helpers.rs `calculate_stableswap_d`) -/

/-- the per-asset `Decimal256` amounts `decimal_with_precision(asset.amount, decimals[i])` -/
def poolDecAmounts (p : PoolInfo) : R (List Nat) :=
  (p.assets.zipIdx).mapM fun (c, i) => do
    let d ← getD? p.decimals i
    decWithPrecision c.amount d

/-- convergence threshold of `calculate_stableswap_d`: one smallest unit at the pool's max
    precision, `decimal_with_precision(1, max_precision)` (F-01 fix; the pinned tree used
    `Decimal256::one()`, one whole token — the extractor reports which of the two the source has) -/
def stableDThreshold (maxPrecision : Nat) : R Nat :=
  if C.STABLE_D_THRESHOLD_IS_ONE_TOKEN = 1 then pure ONE18 else decWithPrecision 1 maxPrecision

def stableDStep (amounts : List Nat) (nDec ann sumPools : Nat) (cur : Nat) : R Nat := do
  let newD ← amounts.foldlM (fun acc a => do
    let mulPools ← decMul U256_MAX a nDec
    decMulRatio acc cur mulPools) cur
  let t1 ← decMul U256_MAX ann sumPools
  let t2 ← decMul U256_MAX newD nDec
  let t3 ← ckAdd U256_MAX t1 t2
  let num ← decMul U256_MAX t3 cur
  let annM1 ← ckSub ann ONE18
  let d1 ← decMul U256_MAX annM1 cur
  let np1 ← ckAdd U256_MAX nDec ONE18
  let d2 ← decMul U256_MAX np1 newD
  let den ← ckAdd U256_MAX d1 d2
  decDiv U256_MAX num den

def calculateStableswapD (p : PoolInfo) (n amp : Nat) : R Nat := do
  let nDec ← fit U256_MAX (n * ONE18) .panic
  let amounts ← poolDecAmounts p
  let sumPools ← amounts.foldlM (fun acc a => ckAdd U256_MAX acc a) 0
  if sumPools == 0 then pure 0 else
  let prod ← ckMul U256_MAX amp n
  let ann ← fit U256_MAX (prod * ONE18) .panic
  let maxP ← match listMax p.decimals with | some m => pure m | none => .error .panic
  let thr ← stableDThreshold maxP
  newtonIter C.NEWTON_ITERATIONS thr (stableDStep amounts nDec ann sumPools) sumPools

/-! ### stableswap: y in Uint512 (helpers.rs `calculate_stableswap_y`) -/

inductive Direction where | simulate | reverse
  deriving DecidableEq, Repr

/-- the balances `x_i` (in max precision) that enter `pool_sum` and `c`: every index except the
    ask index; the offer index carries `pool + offer` (or `ask_pool − offer` in reverse). -/
def stableXs (p : PoolInfo) (offerDenom askDenom : String) (askPoolDec offerDec : Nat)
    (dir : Direction) (maxPrec : Nat) : R (List Nat) := do
  let oi ← match findIdx (· == offerDenom) p.denoms with
    | some i => pure i | none => .error .other
  let ai ← match findIdx (· == askDenom) p.denoms with
    | some i => pure i | none => .error .other
  let xs ← (p.assets.zipIdx).mapM fun (c, i) => do
    let d ← getD? p.decimals i
    let pa ← decWithPrecision c.amount d
    if i == oi then
      let x ← match dir with
        | .simulate => ckAdd U256_MAX offerDec pa
        | .reverse => ckSub askPoolDec offerDec
      let x ← decToUintWithPrecision x maxPrec
      pure (some x)
    else if i != ai then
      let x ← decToUintWithPrecision pa maxPrec
      pure (some x)
    else pure none
  pure (xs.filterMap id)

def stableYStep (c b d : Nat) (y : Nat) : R Nat := do
  let yy ← ckMul U512_MAX y y
  let num ← ckAdd U512_MAX yy c
  let y2 ← ckAdd U512_MAX y y
  let t ← ckAdd U512_MAX y2 b
  let den ← ckSub t d
  ckDiv num den

def calculateStableswapY (p : PoolInfo) (offerDenom askDenom : String) (askPoolDec offerDec amp : Nat)
    (dir : Direction) : R Nat := do
  let n := p.assets.length
  let ann ← ckMul U512_MAX amp n
  let maxPrec ← match listMax p.decimals with | some m => pure m | none => .error .panic
  let dDec ← calculateStableswapD p n amp
  let d ← decToUintWithPrecision dDec maxPrec
  let xs ← stableXs p offerDenom askDenom askPoolDec offerDec dir maxPrec
  let poolSum ← xs.foldlM (fun acc x => ckAdd U512_MAX acc x) 0
  let c ← xs.foldlM (fun c x => do
    let cd ← ckMul U512_MAX c d
    let xn ← ckMul U512_MAX x n
    ckDiv cd xn) d
  let annN ← ckMul U512_MAX ann n
  let cd ← ckMul U512_MAX c d
  let c ← ckDiv cd annN
  let dOverAnn ← ckDiv d ann
  let b ← ckAdd U512_MAX poolSum dOverAnn
  let y ← newtonIter C.NEWTON_ITERATIONS 1 (stableYStep c b d) d
  fit U256_MAX y

/-! ### compute_swap -/

def computeSwapCP (p : PoolInfo) (offerPool askPool offer : Nat) : R SwapComputation := do
  let num ← ckMul U256_MAX askPool offer
  let den ← ckAdd U256_MAX offerPool offer
  let q ← orPanic (decFromRatio U256_MAX num den)
  let gross := decFloor q
  let rate ← decFromRatio U256_MAX askPool offerPool
  let o18 ← fit U256_MAX (offer * ONE18) .panic
  let ideal ← decMul U256_MAX o18 rate
  let slippage ← ckSub (decFloor ideal) gross
  let fc ← computeFees p.fees gross
  getSwapComputation gross slippage fc

def computeSwapStable (p : PoolInfo) (amp : Nat) (offerC askC : Coin) (offerPrec askPrec offer : Nat) :
    R SwapComputation := do
  let askPoolDec ← decWithPrecision askC.amount askPrec
  let offerDec ← decWithPrecision offer offerPrec
  let maxPrec ← match listMax p.decimals with | some m => pure m | none => .error .panic
  let y ← calculateStableswapY p offerC.denom askC.denom askPoolDec offerDec amp .simulate
  let newPool ←
    if askPrec < maxPrec then do
      let d ← decWithPrecision y (maxPrec - askPrec)
      pure (decFloor d)
    else pure y
  let askAmt ← decToUintWithPrecision askPoolDec askPrec
  let gross ← ckSub askAmt newPool
  let g18 ← fit U256_MAX (gross * ONE18) .panic
  -- `max_precision - ask_precision` is a u8 subtraction: underflow panics
  let dp ← ckSub maxPrec askPrec
  let adjRet ← decToUintWithPrecision g18 dp
  let adjOffer ← decToUintWithPrecision offerDec maxPrec
  let slip0 := adjOffer - adjRet      -- saturating_sub
  -- converted to the *ask* precision, like the return amount and the fees (F-10 fix)
  let slippage ←
    if askPrec < maxPrec then do
      let d ← decWithPrecision slip0 (maxPrec - askPrec)
      pure (decFloor d)
    else pure slip0
  let fc ← computeFees p.fees gross
  getSwapComputation gross slippage fc

/-- helpers.rs `compute_swap` -/
def computeSwap (p : PoolInfo) (offer : Coin) (askDenom : String) : R SwapComputation := do
  let (oc, ac, _, _, od, ad) ← getAssetIndexes p offer.denom askDenom
  match p.ptype with
  | .cp => computeSwapCP p oc.amount ac.amount offer.amount
  | .stable amp => computeSwapStable p amp oc ac od ad offer.amount

/-! ### assert_max_slippage (swap/perform_swap.rs) -/

/-- `belief`, `maxSlippage`: `Decimal` atomics.  Errors are `.slippage` except the zero belief
    price and arithmetic failures. -/
def assertMaxSlippage (belief maxSlippage : Option Nat) (offer ret slippage : Nat) : R Unit := do
  let ms := min (maxSlippage.getD C.DEFAULT_SLIPPAGE) C.MAX_ALLOWED_SLIPPAGE
  match belief with
  | some bp =>
    let inv ← match decInv bp with | some i => pure i | none => .error .invalidInput
    let o18 ← fit U256_MAX (offer * ONE18) .panic
    let e ← decMul U256_MAX o18 inv
    let expected := decFloor e
    let sl := expected - ret
    if ret < expected then
      let ratio ← orPanic (decFromRatio U256_MAX sl expected)
      if ratio > ms then .error .slippage else pure ()
    else pure ()
  | none =>
    -- `return_amount + slippage_amount` on Uint128 panics on overflow
    let tot ← fit U128_MAX (ret + slippage) .panic
    let ratio ← orPanic (decFromRatio U256_MAX slippage tot)
    if ratio > ms then .error .slippage else pure ()

/-! ### reverse quote, constant product (helpers.rs `compute_offer_amount`) -/

structure OfferAmountComputation where
  offer : Nat
  slippage : Nat
  swapFee : Nat
  protocolFee : Nat
  burnFee : Nat
  extraFees : Nat
  deriving Repr, DecidableEq, Inhabited

def computeOfferAmount (offerPool askPool ask : Nat) (f : PoolFee) : R OfferAmountComputation := do
  let fees ← ([f.protocol, f.burn] ++ f.extra).foldlM (fun acc s => ckAdd U256_MAX acc s) f.swap
  -- `Decimal256::one() - fees` and `one / x` are the panicking operators
  let oneMinus ← orPanic (ckSub ONE18 fees)
  let inv ← orPanic (decDiv U256_MAX ONE18 oneMinus)
  let cp ← fit U256_MAX (offerPool * askPool) .panic
  let a18 ← fit U256_MAX (ask * ONE18) .panic
  let bc ← decMul U256_MAX a18 inv
  let beforeCommission := decFloor bc
  let den ← ckSub askPool beforeCommission
  let den ← ckSub den 1
  -- `Uint256::one().multiply_ratio(cp, den)` panics on zero denominator / overflow
  let q ← orPanic (mulRatio U256_MAX 1 cp den)
  let offer ← ckSub q offerPool
  let o18 ← fit U256_MAX (offer * ONE18) .panic
  let rate ← orPanic (decFromRatio U256_MAX askPool offerPool)
  let bs ← decMul U256_MAX o18 rate
  let beforeSlippage := decFloor bs
  let slippage := beforeSlippage - beforeCommission
  let sf ← feeCompute f.swap beforeCommission
  let pf ← feeCompute f.protocol beforeCommission
  let bf ← feeCompute f.burn beforeCommission
  let ef ← f.extra.foldlM (fun acc sh => do
    let x ← feeCompute sh beforeCommission
    ckAdd U256_MAX acc x) 0
  let offer ← fit U128_MAX offer
  let slippage ← fit U128_MAX slippage
  let sf ← fit U128_MAX sf
  let pf ← fit U128_MAX pf
  let bf ← fit U128_MAX bf
  let ef ← fit U128_MAX ef
  pure ⟨offer, slippage, sf, pf, bf, ef⟩

/-! ### D for deposits: `calculate_d_core` / `compute_next_d` (integer Newton, A_PRECISION) -/

/-- `compute_next_d`; `none` = the Rust `None` (which `calculate_d_core` unwraps = panic) -/
def computeNextD (amp : Nat) (dInit dProd sumX n : Nat) : Option Nat := do
  let an ← if amp * n ≤ U64_MAX then some (amp * n) else none
  let ann ← if an * C.A_PRECISION ≤ U64_MAX then some (an * C.A_PRECISION) else none
  let m1 ← if ann * sumX ≤ U512_MAX then some (ann * sumX) else none
  let ampScaledSum := m1 / C.A_PRECISION
  let ptn ← if dProd * n ≤ U512_MAX then some (dProd * n) else none
  let s ← if ampScaledSum + ptn ≤ U512_MAX then some (ampScaledSum + ptn) else none
  let numerator ← if s * dInit ≤ U512_MAX then some (s * dInit) else none
  let annM ← if C.A_PRECISION ≤ ann then some (ann - C.A_PRECISION) else none
  let m2 ← if annM * dInit ≤ U512_MAX then some (annM * dInit) else none
  let ampAdjustedD := m2 / C.A_PRECISION
  let np1 := n + 1
  let ptn1 ← if np1 * dProd ≤ U512_MAX then some (np1 * dProd) else none
  let den ← if ampAdjustedD + ptn1 ≤ U512_MAX then some (ampAdjustedD + ptn1) else none
  if den == 0 then some dInit else some (numerator / den)

def dCoreLoop (fuel : Nat) (amp : Nat) (timesN : List Nat) (sumX n : Nat) (d : Nat) : R Nat :=
  match fuel with
  | 0 => pure d          -- the code returns the last iterate without an error
  | fuel + 1 => do
    let dProd ← timesN.foldlM (fun dp a =>
      if a == 0 then pure dp else do
        let m ← orPanic (ckMul U512_MAX dp d)
        pure (m / a)) d
    let dNew ← match computeNextD amp d dProd sumX n with
      | some x => pure x | none => .error .panic
    if absDiff dNew d ≤ 1 then pure dNew else dCoreLoop fuel amp timesN sumX n dNew

/-- `calculate_d_core(amp, deposits, n_coins)`; every failure inside is an `unwrap` = panic -/
def calculateDCore (amp : Nat) (deposits : List Nat) (n : Nat) : R Nat := do
  let sumX ← deposits.foldlM (fun acc x =>
    orPanic (ckAdd U128_MAX acc x)) 0
  if sumX == 0 then pure 0 else
  let timesN ← deposits.mapM (fun a =>
    orPanic (ckMul U128_MAX a n))
  dCoreLoop C.NEWTON_ITERATIONS amp timesN sumX n sumX

/-- `compute_d(amp, coins)` -/
def computeD (amp : Nat) (coins : List Coin) : R Nat :=
  calculateDCore amp (coins.map (·.amount)) coins.length

/-- `normalize_amount`; `10u128.pow(k)` panics for k ≥ 39; `None` on overflow / never on div -/
def normalizeAmount (amount fromD toD : Nat) : R (Option Nat) :=
  if fromD > toD then
    if fromD - toD ≥ 39 then .error .panic else pure (some (amount / 10 ^ (fromD - toD)))
  else
    if toD - fromD ≥ 39 then .error .panic else
    let v := amount * 10 ^ (toD - fromD)
    pure (if v ≤ U128_MAX then some v else none)

def normalizeAmount512 (amount fromD toD : Nat) : R (Option Nat) :=
  if fromD > toD then
    if fromD - toD ≥ 39 then .error .panic else pure (some (amount / 10 ^ (fromD - toD)))
  else
    if toD - fromD ≥ 39 then .error .panic else
    let v := amount * 10 ^ (toD - fromD)
    pure (if v ≤ U512_MAX then some v else none)

def findDenomDecimals (p : PoolInfo) (denom : String) : R (Option Nat) :=
  match findIdx (· == denom) p.denoms with
  | some i => do let d ← getD? p.decimals i; pure (some d)
  | none => pure none

/-- `compute_d_with_pool_info`: `None` (⇒ StableInvariantError at the caller) when a normalisation
    overflows; unknown denom / empty decimals are `unwrap` panics -/
def computeDWithPoolInfo (amp : Nat) (coins : List Coin) (p : PoolInfo) : R (Option Nat) := do
  let maxD ← match listMax p.decimals with | some m => pure m | none => .error .panic
  -- sequential with early exit: the first failing normalisation returns `None` at once
  let norm ← coins.foldlM (fun (acc : Option (List Nat)) c => do
    match acc with
    | none => pure none
    | some xs =>
      match ← findDenomDecimals p c.denom with
      | none => .error .panic
      | some d =>
        match ← normalizeAmount c.amount d maxD with
        | some v => pure (some (xs ++ [v]))
        | none => pure none) (some [])
  match norm with
  | none => pure none
  | some xs =>
    let d ← calculateDCore amp xs coins.length
    pure (some d)

def withinOnePercent (a b : Nat) : Bool :=
  absDiff a b ≤ (max a b) * 1 / 100

/-- `get_minimum_liquidity_amount_stableswap` (`unwrap` on the normalisation) -/
def minLiquidityStable (minPrec maxPrec : Nat) : R Nat := do
  let r ← normalizeAmount C.MINIMUM_LIQUIDITY_AMOUNT minPrec maxPrec
  match r with | some x => pure x | none => .error .panic

/-- helpers.rs `dynamic_fee` (offpeg multiplier 2) -/
def dynamicFee (xpi : Nat) (xpj : Nat) (fee : Nat) (assetDecimals : Nat) : R Nat := do
  let mult := 2 * ONE18
  let unw (r : R Nat) : R Nat := orPanic (r)
  let xpi512 ← unw (decToUintWithPrecision xpi assetDecimals)
  let s ← ckAdd U512_MAX xpi512 xpj
  let xps2 ← fit U512_MAX (s * s) .panic       -- `.pow(2)` panics on overflow
  let mult512 ← unw (decToUintWithPrecision mult assetDecimals)
  let fee512 ← unw (decToUintWithPrecision fee assetDecimals)
  let numerator ← unw (ckMul U512_MAX mult512 fee512)
  let one ← decToUintWithPrecision ONE18 assetDecimals
  let sat (x : Nat) : Nat := min x U512_MAX
  let t := sat (sat ((mult512 - one) * xpi512) * xpj)
  let t4 ← unw (ckMul U512_MAX t 4)
  let den ← unw (ckDiv t4 xps2)
  let q ← unw (ckDiv numerator den)
  let res ← ckAdd U512_MAX one q
  let res ← fit U256_MAX res .panic
  -- `Decimal256::from_ratio(result, 1)` panics on overflow
  fit U256_MAX (res * ONE18) .panic

/-- list update helper -/
def setAmount (cs : List Coin) (i : Nat) (a : Nat) : List Coin :=
  cs.zipIdx.map fun (c, j) => if j == i then { c with amount := a } else c

/-- helpers.rs `compute_lp_mint_amount_for_stableswap_deposit` (the outer `Option` is always `Some`
    in the code, so it is dropped) -/
def computeLpMintStable (amp : Nat) (old new : List Coin) (supply : Nat) (p : PoolInfo) : R Nat := do
  let firstLiquidity := supply == 0 || old.all (·.amount == 0)
  let deposited : List Coin := (new.zip old).map fun (n, o) => ⟨n.denom, n.amount - o.amount⟩
  -- `total_deposit_amount += amount` is a u128 `+=` (panics on overflow)
  let total ← deposited.foldlM (fun acc c =>
    orPanic (ckAdd U128_MAX acc c.amount)) 0
  if total == 0 then pure 0 else
  let d0 ← match ← computeDWithPoolInfo amp old p with | some d => pure d | none => .error .other
  let d1 ← match ← computeDWithPoolInfo amp new p with | some d => pure d | none => .error .other
  if d1 ≤ d0 then pure 0 else
  let adjusted ←
    if firstLiquidity then pure new else do
      let n := old.length
      let maxPrec ← match listMax p.decimals with | some m => pure m | none => .error .panic
      let dep0 ← getD? deposited 0
      let dec0 ← match ← findDenomDecimals p dep0.denom with | some d => pure d | none => .error .other
      let norm0 ← match ← normalizeAmount dep0.amount dec0 maxPrec with | some x => pure x | none => .error .other
      let balanced ← (deposited.drop 1).foldlM (fun acc c => do
        if !acc then pure false else
        let dc := (← findDenomDecimals p c.denom).getD 0
        match ← normalizeAmount c.amount dc maxPrec with
        | some na => pure (withinOnePercent na norm0)
        | none => pure false) true
      if balanced then pure new else do
        let n18 ← fit U256_MAX (n * ONE18) .panic
        let bf1 ← decMul U256_MAX p.fees.swap n18
        -- `4 * (n_coins - 1)` on usize; n ≥ 1 here
        let den ← fit U256_MAX (4 * (n - 1) * ONE18) .panic
        let baseFee ← decDiv U256_MAX bf1 den
        let sum01 ← ckAdd U512_MAX d0 d1
        let ys ← ckDiv sum01 n
        (List.range n).foldlM (fun adj i => do
          let ni ← getD? new i
          let oi ← getD? old i
          let ai ← getD? adj i
          let ad ← match ← findDenomDecimals p ni.denom with | some d => pure d | none => .error .other
          let nOld ← match ← normalizeAmount oi.amount ad maxPrec with | some x => pure x | none => .error .other
          let nNew ← match ← normalizeAmount ai.amount ad maxPrec with | some x => pure x | none => .error .other
          let m ← ckMul U512_MAX d1 nOld
          let ideal ← ckDiv m d0
          let difference := absDiff nNew ideal
          -- `max_precision.try_into().unwrap()` to u8
          let _ ← fit 255 maxPrec .panic
          let xs ← decWithPrecision nNew maxPrec
          let df ← dynamicFee xs ys baseFee maxPrec
          let dfi ← decToUintWithPrecision df 0
          let prod := min (dfi * difference) U512_MAX
          -- `Uint512::from(10u128).pow(max_precision)` panics on overflow (max_precision ≥ 155)
          let dec512 ← fit U512_MAX (10 ^ maxPrec) .panic
          let feeMax ← ckDiv prod dec512
          let feeAsset ← match ← normalizeAmount512 feeMax maxPrec ad with | some x => pure x | none => .error .other
          let na ← ckSub ai.amount feeAsset
          let na ← fit U128_MAX na
          pure (setAmount adj i na)) new
  let adjD1 ← match ← computeDWithPoolInfo amp adjusted p with | some d => pure d | none => .error .other
  if supply == 0 then do
    let minD ← match listMin p.decimals with | some m => pure m | none => .error .panic
    let maxD ← match listMax p.decimals with | some m => pure m | none => .error .panic
    let ml ← minLiquidityStable minD maxD
    let lp := adjD1 - ml
    if lp == 0 then .error .invalidInput else fit U128_MAX lp
  else do
    let diff ← ckSub adjD1 d0
    let m ← ckMul U512_MAX supply diff
    let amount ← ckDiv m d0
    fit U128_MAX amount

/-! ### coins helpers (mantra-dex-std coin.rs) -/

/-- `add_coins`: add amounts to existing denoms (error if absent), then drop zero coins -/
def addCoins (coins toAdd : List Coin) : R (List Coin) := do
  let upd ← toAdd.foldlM (fun cs c =>
    match findIdx (fun x : Coin => x.denom == c.denom) cs with
    | some i => do
      let cur ← getD? cs i
      let s ← ckAdd U128_MAX cur.amount c.amount
      pure (setAmount cs i s)
    | none => .error .other) coins
  pure (upd.filter (·.amount > 0))

/-- insertion into a denom-sorted list, summing equal denoms (one step of `aggregate_coins`) -/
def insertCoin (c : Coin) : List Coin → R (List Coin)
  | [] => pure [c]
  | x :: xs =>
    if c.denom == x.denom then do
      let s ← ckAdd U128_MAX x.amount c.amount
      pure ({ x with amount := s } :: xs)
    else if c.denom < x.denom then pure (c :: x :: xs)
    else do
      let r ← insertCoin c xs
      pure (x :: r)

/-- `aggregate_coins`: sum per denom, sorted by denom (zero amounts are kept) -/
def aggregateCoins (cs : List Coin) : R (List Coin) :=
  cs.foldlM (fun acc c => insertCoin c acc) []

def sortCoins (cs : List Coin) : List Coin :=
  cs.foldl (fun acc c =>
    -- stable insertion sort by denom
    let rec ins (c : Coin) : List Coin → List Coin
      | [] => [c]
      | x :: xs => if c.denom < x.denom then c :: x :: xs else x :: ins c xs
    ins c acc) []

/-! ### assert_slippage_tolerance (deposits) -/

/-- returns the caller's `pool_assets` slice as the caller sees it afterwards: unchanged — the
    comparison sorts a *local copy* by denom (before the F-08 fix the caller's slice was sorted in
    place and then stored by `provide_liquidity`). -/
def assertSlippageTolerance (tol : Option Nat) (deposits : List Coin) (poolAssets : List Coin)
    (ptype : PoolType) : R (List Coin) := do
  if poolAssets.any (·.amount == 0) then pure poolAssets else
  match tol with
  | none => pure poolAssets
  | some tol =>
    if tol > ONE18 then .error .invalidInput else
    let oneMinus := ONE18 - tol
    let depAmts := deposits.map (·.amount)
    let sorted := sortCoins poolAssets
    let pools := sorted.map (·.amount)
    match ptype with
    | .stable amp => do
      let dI ← computeD amp sorted
      let fin ← addCoins sorted deposits
      let dF ← computeD amp fin
      let sI := isqrt dI
      let sF := isqrt dF
      let ratio ← orPanic (decFromRatio U256_MAX sF sI)
      let r2 ← orPanic (decPow2 U256_MAX ratio)
      if r2 > tol then .error .slippage else pure poolAssets
    | .cp =>
      if depAmts.length != 2 || pools.length != 2 then .error .invalidInput else
      let unw (r : R Nat) : R Nat := orPanic (r)
      let d0 := depAmts[0]!; let d1 := depAmts[1]!
      let p0 := pools[0]!; let p1 := pools[1]!
      let a ← unw (decFromRatio U256_MAX d0 d1)
      let a ← unw (decMul U256_MAX a oneMinus)
      let b ← unw (decFromRatio U256_MAX p0 p1)
      if a > b then .error .slippage else
      let c ← unw (decFromRatio U256_MAX d1 d0)
      let c ← unw (decMul U256_MAX c oneMinus)
      let e ← unw (decFromRatio U256_MAX p1 p0)
      if c > e then .error .slippage else pure poolAssets

end MantraDex
