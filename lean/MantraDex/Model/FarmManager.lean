/-
  Farm manager handlers: contract.rs, manager/commands.rs, farm/commands.rs,
  position/{commands,helpers}.rs, helpers.rs, state.rs, queries.rs — as pure functions.
-/
import MantraDex.Model.World
import MantraDex.Model.FarmMath
import MantraDex.Model.PoolManager

namespace MantraDex

structure Position where
  id : String
  lpDenom : Denom
  amount : Nat
  unlocking : Nat
  open_ : Bool
  expiringAt : Option Nat
  receiver : Addr
  deriving Repr, DecidableEq, Inhabited

structure Farm where
  id : String
  owner : Addr
  lpDenom : Denom
  assetDenom : Denom
  assetAmount : Nat
  claimed : Nat
  emissionRate : Nat
  startEpoch : Nat
  endEpoch : Nat          -- preliminary_end_epoch
  deriving Repr, DecidableEq, Inhabited

structure FmConfig where
  feeCollector : Addr
  epochManager : Addr
  poolManager : Addr
  createFarmFee : Coin
  maxConcurrentFarms : Nat
  maxFarmEpochBuffer : Nat
  minUnlocking : Nat
  maxUnlocking : Nat
  farmExpirationTime : Nat
  emergencyUnlockPenalty : Nat
  deriving Repr, DecidableEq, Inhabited

structure FmState where
  config : FmConfig
  positions : List Position := []     -- sorted by identifier
  posCounter : Nat := 0
  farms : List Farm := []             -- sorted by identifier
  farmCounter : Nat := 0
  lastClaimed : Addr → Option Nat := fun _ => none
  /-- LP_WEIGHT_HISTORY: snapshots (epoch, weight) per (address, lp denom), ascending by epoch -/
  hist : Addr → Denom → List (Nat × Nat) := fun _ _ => []
  owner : Ownership

structure FmEnv where
  self : Addr
  nowNs : Nat
  validAddr : Addr → Bool
  /-- epoch-manager configuration reachable at an address (`none` = the query fails) -/
  emConfig : Addr → Option EpochConfig

def FmEnv.nowS (e : FmEnv) : Nat := e.nowNs / NANOS

/-- `mantra_dex_std::epoch_manager::get_current_epoch` → epoch id -/
def fmCurrentEpoch (s : FmState) (env : FmEnv) : R Nat :=
  match env.emConfig s.config.epochManager with
  | none => .error .other
  | some cfg => do let (id, _) ← currentEpoch cfg env.nowNs; pure id

/-! ### weight history primitives (state.rs) -/

def histGet (h : List (Nat × Nat)) (e : Nat) : Option Nat :=
  (h.find? (·.1 == e)).map (·.2)

def histSet : List (Nat × Nat) → Nat → Nat → List (Nat × Nat)
  | [], e, w => [(e, w)]
  | (e', w') :: xs, e, w =>
    if e < e' then (e, w) :: (e', w') :: xs
    else if e = e' then (e, w) :: xs
    else (e', w') :: histSet xs e w

def histEarliest (h : List (Nat × Nat)) : Option (Nat × Nat) := h.head?
def histLatest (h : List (Nat × Nat)) : Option (Nat × Nat) := h.getLast?

def FmState.setHist (s : FmState) (a : Addr) (d : Denom) (h : List (Nat × Nat)) : FmState :=
  { s with hist := fun a' d' => if a' = a ∧ d' = d then h else s.hist a' d' }

/-- `get_positions_by_receiver(receiver, Some(open), None, Some(MAX_POSITIONS_LIMIT))` -/
def FmState.positionsBy (s : FmState) (receiver : Addr) (open_ : Bool) : List Position :=
  (s.positions.filter fun p => p.receiver == receiver && p.open_ == open_).take C.MAX_POSITIONS_LIMIT

/-- `get_farms_by_lp_denom(lp, None, Some(limit))` -/
def FmState.farmsByLp (s : FmState) (lp : Denom) (limit : Nat) : List Farm :=
  (s.farms.filter (·.lpDenom == lp)).take (min limit C.MAX_FARMS_LIMIT)

def FmState.getPosition (s : FmState) (id : String) : Option Position :=
  s.positions.find? (·.id == id)

def insertPosSorted (p : Position) : List Position → List Position
  | [] => [p]
  | x :: xs => if p.id < x.id then p :: x :: xs else x :: insertPosSorted p xs

def FmState.savePosition (s : FmState) (p : Position) : FmState :=
  if s.positions.any (·.id == p.id) then
    { s with positions := s.positions.map fun q => if q.id == p.id then p else q }
  else { s with positions := insertPosSorted p s.positions }

def FmState.removePosition (s : FmState) (id : String) : FmState :=
  { s with positions := s.positions.filter (·.id != id) }

def insertFarmSorted (f : Farm) : List Farm → List Farm
  | [] => [f]
  | x :: xs => if f.id < x.id then f :: x :: xs else x :: insertFarmSorted f xs

def FmState.saveFarm (s : FmState) (f : Farm) : FmState :=
  if s.farms.any (·.id == f.id) then
    { s with farms := s.farms.map fun q => if q.id == f.id then f else q }
  else { s with farms := insertFarmSorted f s.farms }

def FmState.getFarm (s : FmState) (id : String) : R Farm :=
  match s.farms.find? (·.id == id) with
  | some f => .ok f
  | none => .error .notFound

/-! ### helpers.rs -/

def fmIdCharOk (c : Char) : Bool := isAsciiAlnum c || c == '.' || c == '-' || c == '_'

def validateIdentifier (id : String) : Bool :=
  id.utf8ByteSize ≤ C.MAX_IDENTIFIER_LENGTH && id.toList.all fmIdCharOk

/-- `validate_lp_denom`: a factory token created by the configured pool manager -/
def validateLpDenom (lp : Denom) (pm : Addr) : Bool :=
  match splitFactoryDenom lp with
  | some (c, sub) => isFactoryTokenParts c sub && c == pm
  | none => false

/-- `is_farm_expired` -/
def isFarmExpired (s : FmState) (env : FmEnv) (f : Farm) : R Bool := do
  let id ← fit U64_MAX (f.endEpoch + 1) .panic
  let cfg ← match env.emConfig s.config.epochManager with
    | some c => pure c | none => .error .other
  let (_, startNs) ← queryEpoch cfg id
  -- `plus_seconds` multiplies and adds on u64 with overflow checks (panic)
  let addNs ← fit U64_MAX (s.config.farmExpirationTime * NANOS) .panic
  let endNs ← fit U64_MAX (startNs + addNs) .panic
  pure (f.assetAmount - f.claimed == 0 || endNs < env.nowNs)

/-- `.unwrap_or(false)` around `is_farm_expired`: an `Err` counts as "not expired", a panic
    still aborts -/
def isFarmExpiredOrFalse (s : FmState) (env : FmEnv) (f : Farm) : R Bool :=
  match isFarmExpired s env f with
  | .ok b => .ok b
  | .error .panic => .error .panic
  | .error _ => .ok false

def untilEpochOrCurrent (untilE : Option Nat) (cur : Nat) : R Nat :=
  match untilE with
  | some u => if u ≤ cur then .ok u else .error .invalidInput
  | none => .ok cur

/-! ### rewards (farm/commands.rs) -/

/-- `compute_address_weights`: epochs `start−1 ..= untilE`, carrying the last snapshot seen *inside
    the window* forward, starting from 0 -/
def computeAddressWeights (h : List (Nat × Nat)) (startFrom untilE : Nat) : R (List (Nat × Nat)) := do
  if startFrom = 0 then .error .panic
  let n := untilE + 1 - (startFrom - 1)
  let (_, acc) := (List.range n).foldl (fun (st : Nat × List (Nat × Nat)) i =>
    let e := startFrom - 1 + i
    match histGet h e with
    | some w => (w, st.2 ++ [(e, w)])
    | none => (st.1, st.2 ++ [(e, st.1)])) (0, [])
  pure acc

/-- `compute_contract_weights` (after the F-06 fix: the earliest snapshot is inserted when it lies
    at or after `start_from`) -/
def computeContractWeights (h : List (Nat × Nat)) (startFrom untilE : Nat) : R (List (Nat × Nat)) := do
  let (startId, w0, init) ← match histGet h startFrom with
    | some w => pure (startFrom, w, [(startFrom, w)])
    | none =>
      match histEarliest h with
      | none => .error .unauthorized
      | some (e0, w) => pure (e0, w, if e0 ≥ startFrom then [(e0, w)] else [])
  let n := untilE - startId
  let (_, acc) := (List.range n).foldl (fun (st : Nat × List (Nat × Nat)) i =>
    let e := startId + 1 + i
    let last := match histGet h e with | some w => w | none => st.1
    (last, if e ≥ startFrom then st.2 ++ [(e, last)] else st.2)) (w0, init)
  pure acc

def lookupW (m : List (Nat × Nat)) (e : Nat) : Option Nat := (m.find? (·.1 == e)).map (·.2)

/-- per-farm reward terms of `calculate_rewards`: list of (epoch, reward) -/
def farmRewardTerms (f : Farm) (userW contractW : List (Nat × Nat)) (startFrom untilE : Nat) :
    R (List (Nat × Nat)) := do
  -- compute_farm_emissions
  let untilF ← if f.endEpoch ≤ untilE then
      (if f.endEpoch = 0 then .error .panic else pure (f.endEpoch - 1))
    else pure untilE
  let n := untilF + 1 - startFrom
  (List.range n).foldlM (fun acc i => do
    let e := startFrom + i
    if f.startEpoch > e then pure acc else
    let uw ← match lookupW userW e with | some w => pure w | none => .error .panic
    let total := (lookupW contractW e).getD 0
    if total = 0 then pure acc else
    let reward ← mulFloorFrac U128_MAX f.emissionRate uw total
    let chk ← ckAdd U128_MAX reward f.claimed
    if chk > f.assetAmount then .error .exhausted
    pure (acc ++ [(e, reward)])) []

structure RewardsCalc where
  rewards : List Coin                      -- aggregated, sorted by denom, only positive terms
  modified : List (String × Nat)           -- farm id ↦ Σ rewards (claim mode)
  terms : List (String × Nat × Nat)        -- (farm id, epoch, reward): the per-epoch ledger entries
  deriving Repr, Inhabited

/-- `calculate_rewards(lp_denom, receiver, untilE, is_claim)` -/
def calculateRewards (s : FmState) (env : FmEnv) (lp : Denom) (receiver : Addr) (untilE : Nat) :
    R RewardsCalc := do
  let farms := s.farmsByLp lp s.config.maxConcurrentFarms
  let last := s.lastClaimed receiver
  let early ← match last with
    | some l => if untilE < l then .error .invalidInput else pure (untilE == l)
    | none => pure false
  if early then pure ⟨[], [], []⟩ else
  let r ← farms.foldlM (fun (acc : List Coin × List (String × Nat) × List (String × Nat × Nat)) f => do
    if f.startEpoch > untilE then pure acc else
    let startFrom ← match last with
      | some l => pure (l + 1)
      | none => match histEarliest (s.hist receiver f.lpDenom) with
        | some (e, _) => pure e | none => .error .notFound
    let uw ← computeAddressWeights (s.hist receiver lp) startFrom untilE
    let cw ← computeContractWeights (s.hist env.self lp) startFrom untilE
    let terms ← farmRewardTerms f uw cw startFrom untilE
    let coins := (terms.filter (·.2 > 0)).map fun t => (⟨f.assetDenom, t.2⟩ : Coin)
    let sum ← terms.foldlM (fun a t => ckAdd U128_MAX a t.2) 0
    let modified := if terms.isEmpty then acc.2.1 else acc.2.1 ++ [(f.id, sum)]
    pure (acc.1 ++ coins, modified, acc.2.2 ++ terms.map fun t => (f.id, t.1, t.2))) ([], [], [])
  let agg ← aggregateCoins r.1
  pure ⟨agg, r.2.1, r.2.2⟩

/-- `sync_address_lp_weight_history(address, lp, epoch, save_last)` (after the F-04 fix): without
    `save` the whole history is dropped; with it the entries up to `epoch` are compacted into one
    entry at `epoch` carrying the weight in effect there, later entries are kept. -/
def syncHistory (s : FmState) (a : Addr) (lp : Denom) (epoch : Nat) (save : Bool) : R FmState := do
  let h := s.hist a lp
  if h.isEmpty then .error .notFound
  if !save then pure (s.setHist a lp []) else
  match (h.filter (·.1 ≤ epoch)).getLast? with
  | none => pure s
  | some (_, w) => pure (s.setHist a lp (histSet (h.filter (·.1 > epoch)) epoch w))

def uniqueDenoms (ps : List Position) : List Denom :=
  (ps.map (·.lpDenom)).foldl (fun acc d => if acc.contains d then acc else
    -- keep sorted: deterministic stand-in for the HashSet order
    (acc ++ [d])) [] |>.mergeSort (· ≤ ·)

/-- `claim` -/
def fmClaim (s : FmState) (env : FmEnv) (sender : Addr) (funds : List Coin) (untilE : Option Nat) :
    R (FmState × Response) := do
  nonpayable funds
  let openPos := s.positionsBy sender true
  if openPos.isEmpty then .error .notFound
  let cur ← fmCurrentEpoch s env
  let lps := uniqueDenoms openPos
  let untilE ← untilEpochOrCurrent untilE cur
  let (s', total) ← lps.foldlM (fun (st : FmState × List Coin) lp => do
    let rc ← calculateRewards st.1 env lp sender untilE
    let s1 ← rc.modified.foldlM (fun (s1 : FmState) (m : String × Nat) => do
      let f ← s1.getFarm m.1
      let c ← ckAdd U128_MAX f.claimed m.2
      if c > f.assetAmount then .error .exhausted
      pure (s1.saveFarm { f with claimed := c })) st.1
    let s2 ← syncHistory s1 sender lp untilE true
    pure (s2, st.2 ++ rc.rewards)) (s, [])
  let s'' := { s' with lastClaimed := fun a => if a = sender then some untilE else s'.lastClaimed a }
  let msgs ← if total.isEmpty then pure [] else do
    let agg ← aggregateCoins total
    pure [Msg.bankSend sender agg]
  pure (s'', Response.ofMsgs msgs [("action", "claim")])

/-- queries.rs `query_rewards(address, untilE)` → total rewards -/
def queryRewards (s : FmState) (env : FmEnv) (address : Addr) (untilE : Option Nat) : R (List Coin) := do
  if !env.validAddr address then .error .invalidInput
  let openPos := s.positionsBy address true
  if openPos.isEmpty then pure [] else
  let cur ← fmCurrentEpoch s env
  let untilE ← untilEpochOrCurrent untilE cur
  let lps := uniqueDenoms openPos
  let total ← lps.foldlM (fun acc lp => do
    let rc ← calculateRewards s env lp address untilE
    pure (acc ++ rc.rewards)) []
  aggregateCoins total

/-! ### positions (position/commands.rs) -/

def latestWeight (h : List (Nat × Nat)) : Nat := ((histLatest h).map (·.2)).getD 0

/-- `update_weights(receiver, lp_asset, unlocking, fill)` -/
def updateWeights (s : FmState) (env : FmEnv) (receiver : Addr) (lp : Denom) (amount unlocking : Nat)
    (fill : Bool) : R FmState := do
  let cur ← fmCurrentEpoch s env
  let w ← calculateWeight amount unlocking
  let e ← fit U64_MAX (cur + 1) .panic
  let cw := latestWeight (s.hist env.self lp)
  let uw := latestWeight (s.hist receiver lp)
  -- on close, the same amount `min(weight, user_weight)` leaves the total and the user (F-07 fix)
  let removed := min w uw
  let cw' ← if fill then ckAdd U128_MAX cw w else pure (cw - removed)
  let uw' ← if fill then ckAdd U128_MAX uw w else pure (uw - removed)
  let s1 := s.setHist env.self lp (histSet (s.hist env.self lp) e cw')
  pure (s1.setHist receiver lp (histSet (s1.hist receiver lp) e uw'))

/-- `reconcile_user_state(receiver, position)` -/
def reconcileUserState (s : FmState) (env : FmEnv) (receiver : Addr) (lp : Denom) : R FmState := do
  let openPos := s.positionsBy receiver true
  let s1 := if openPos.isEmpty then
      { s with lastClaimed := fun a => if a = receiver then none else s.lastClaimed a } else s
  if (openPos.filter (·.lpDenom == lp)).isEmpty && !(s1.hist receiver lp).isEmpty then do
    let cur ← fmCurrentEpoch s1 env
    syncHistory s1 receiver lp cur false
  else pure s1

def createPosition (s : FmState) (env : FmEnv) (sender : Addr) (funds : List Coin) (id : Option String)
    (unlocking : Nat) (receiver : Option Addr) : R (FmState × Response) := do
  let lp ← oneCoin funds
  if !validateLpDenom lp.denom s.config.poolManager then .error .mismatch
  if unlocking < s.config.minUnlocking || unlocking > s.config.maxUnlocking then .error .invalidInput
  let recv ← match receiver with
    | some r =>
      if !env.validAddr r then .error .invalidInput
      else if !(sender == s.config.poolManager || sender == r) then .error .unauthorized
      else pure r
    | none => pure sender
  let counter := s.posCounter + 1
  let (identifier, s1) := match id with
    | some i => (C.EXPLICIT_POSITION_ID_PREFIX ++ i, s)
    | none => (C.AUTO_POSITION_ID_PREFIX ++ toString counter, { s with posCounter := counter })
  if counter > U64_MAX then .error .panic
  if !validateIdentifier identifier then .error .invalidInput
  if (s1.getPosition identifier).isSome then .error .exists_
  if (s1.positionsBy recv true).length ≥ C.MAX_POSITIONS_LIMIT then .error .limit
  let p : Position := {
    id := identifier, lpDenom := lp.denom, amount := lp.amount, unlocking := unlocking,
                        open_ := true, expiringAt := none, receiver := recv }
  let s2 := s1.savePosition p
  let s3 ← updateWeights s2 env recv lp.denom lp.amount unlocking true
  pure (s3, { attrs := [("action", "open_position")] })

def expandPosition (s : FmState) (env : FmEnv) (sender : Addr) (funds : List Coin) (id : String) :
    R (FmState × Response) := do
  let p ← match s.getPosition id with | some p => pure p | none => .error .notFound
  let lp ← oneCoin funds
  if !validateLpDenom lp.denom s.config.poolManager then .error .mismatch
  if p.lpDenom != lp.denom then .error .mismatch
  if !p.open_ then .error .invalidInput
  if !(p.receiver == sender || sender == s.config.poolManager) then .error .unauthorized
  let a ← ckAdd U128_MAX p.amount lp.amount
  let s1 := s.savePosition { p with amount := a }
  let s2 ← updateWeights s1 env p.receiver lp.denom lp.amount p.unlocking true
  pure (s2, { attrs := [("action", "expand_position")] })

def closePosition (s : FmState) (env : FmEnv) (sender : Addr) (funds : List Coin) (id : String)
    (lpAsset : Option Coin) : R (FmState × Response) := do
  nonpayable funds
  -- validate_no_pending_rewards
  let pending ← queryRewards s env sender none
  if !pending.isEmpty then .error .pendingRewards
  let p ← match s.getPosition id with | some p => pure p | none => .error .notFound
  if p.receiver != sender then .error .unauthorized
  if !p.open_ then .error .invalidInput
  -- `env.block.time.plus_seconds(unlocking).seconds()`
  let addNs ← fit U64_MAX (p.unlocking * NANOS) .panic
  let expNs ← fit U64_MAX (env.nowNs + addNs) .panic
  let expiresAt := expNs / NANOS
  if (s.positionsBy sender false).length ≥ C.MAX_POSITIONS_LIMIT then .error .limit
  let (s1, p', closeAmount) ← match lpAsset with
    | some c =>
      if c.denom != p.lpDenom then .error .mismatch
      else if c.amount = p.amount then
        pure (s, { p with open_ := false, expiringAt := some expiresAt }, p.amount)
      else if c.amount < p.amount then do
        let counter := s.posCounter + 1
        if counter > U64_MAX then .error .panic
        let np : Position := {
          id := C.AUTO_POSITION_ID_PREFIX ++ toString counter, lpDenom := c.denom,
          amount := c.amount, unlocking := p.unlocking, open_ := false, expiringAt := some expiresAt,
          receiver := p.receiver }
        pure ((({ s with posCounter := counter } : FmState).savePosition np), { p with amount := p.amount - c.amount }, c.amount)
      else .error .invalidInput
    | none => pure (s, { p with open_ := false, expiringAt := some expiresAt }, p.amount)
  let s2 ← updateWeights s1 env sender p.lpDenom closeAmount p.unlocking false
  let s3 := s2.savePosition p'
  let s4 ← reconcileUserState s3 env sender p.lpDenom
  pure (s4, { attrs := [("action", "close_position"), ("close_in_full", toString (!p'.open_))] })

/-- distinct owners in order of first appearance (stand-in for the HashSet order) -/
def uniqueOwners (fs : List Farm) : List Addr :=
  (fs.foldl (fun acc f => if acc.contains f.owner then acc else acc ++ [f.owner]) []).mergeSort (· ≤ ·)

def withdrawPosition (s : FmState) (env : FmEnv) (sender : Addr) (funds : List Coin) (id : String)
    (emergency : Option Bool) : R (FmState × Response) := do
  nonpayable funds
  let p ← match s.getPosition id with | some p => pure p | none => .error .notFound
  if p.receiver != sender then .error .unauthorized
  let now := env.nowS
  let pv : PosView := ⟨p.amount, p.unlocking, p.expiringAt⟩
  let (s1, amountOut, msgs) ←
    if emergency == some true && !pv.isExpired now then do
      let rate ← calculateEmergencyPenalty pv s.config.emergencyUnlockPenalty now
      let cur ← fmCurrentEpoch s env
      let active ← (s.farmsByLp p.lpDenom C.MAX_FARMS_LIMIT).filterM fun f => do
        if f.startEpoch ≤ cur then do
          let ex ← isFarmExpiredOrFalse s env f
          pure (!ex)
        else pure false
      let owners := uniqueOwners active
      -- the arithmetic is evaluated before the farms are read in the code, so a failure there
      -- wins; both are rejections
      let sp ← penaltySplit p.amount rate owners.length
      let ownerMsgs : List Msg :=
        if sp.nFarmOwners = 0 then [] else owners.map fun o => .bankSend o [⟨p.lpDenom, sp.perFarmOwner⟩]
      let fcMsgs : List Msg :=
        if sp.feeCollector > 0 then [.bankSend s.config.feeCollector [⟨p.lpDenom, sp.feeCollector⟩]] else []
      let s1 ← if p.open_ then updateWeights s env sender p.lpDenom p.amount p.unlocking false else pure s
      pure (s1, p.amount - sp.total, ownerMsgs ++ fcMsgs)
    else do
      if p.expiringAt.isNone then .error .unauthorized
      if !pv.isExpired now then .error .notExpired
      pure (s, p.amount, [])
  let payout : List Msg := if amountOut ≠ 0 then [.bankSend p.receiver [⟨p.lpDenom, amountOut⟩]] else []
  let s2 := s1.removePosition id
  let s3 ← if p.open_ then reconcileUserState s2 env sender p.lpDenom else pure s2
  pure (s3, Response.ofMsgs (msgs ++ payout) [("action", "withdraw_position")])

/-! ### farms (manager/commands.rs) -/

/-- `close_farms`: remove the farms, refund the remainder with a reply-on-error sub-message -/
def closeFarms (s : FmState) (fs : List Farm) : FmState × List SubMsg :=
  fs.foldl (fun (st : FmState × List SubMsg) f =>
    let s' := { st.1 with farms := st.1.farms.filter (·.id != f.id) }
    let rem := f.assetAmount - f.claimed
    if rem > 0 then
      (s', st.2 ++ [{ msg := .bankSend f.owner [⟨f.assetDenom, rem⟩], replyOn := .error,
                      id := C.CLOSE_FARMS_ERR_REPLY_CODE }])
    else (s', st.2)) (s, [])

/-- helpers.rs `process_farm_creation_fee` (called only when the fee amount is non-zero) -/
def processFarmCreationFee (cfg : FmConfig) (sender : Addr) (funds : List Coin) (asset : Coin) :
    R (List Msg) := do
  let fee := cfg.createFarmFee
  let paid ← match funds.find? (·.denom == fee.denom) with
    | some c => pure c.amount | none => .error .payment
  let refund ←
    if paid = fee.amount then pure []
    else if paid < fee.amount then .error .payment
    else if fee.denom == asset.denom then do
      let t ← ckAdd U128_MAX asset.amount fee.amount
      if t ≠ paid then .error .mismatch else pure []
    else pure [Msg.bankSend sender [⟨fee.denom, paid - fee.amount⟩]]
  let toCollector := if fee.amount > 0 then [Msg.bankSend cfg.feeCollector [fee]] else []
  pure (refund ++ toCollector)

/-- helpers.rs `assert_farm_asset` -/
def assertFarmAsset (funds : List Coin) (fee asset : Coin) : R Unit := do
  let sent ← match funds.find? (·.denom == asset.denom) with
    | some c => pure c | none => .error .mismatch
  if fee.denom != asset.denom then
    if sent.amount ≠ asset.amount then .error .mismatch
    -- with a zero fee only the reward is due (F-05 fix)
    if funds.length ≠ (if fee.amount = 0 then 1 else 2) then .error .mismatch
  else
    let t ← ckAdd U128_MAX asset.amount fee.amount
    if t ≠ sent.amount then .error .mismatch
    if funds.length ≠ 1 then .error .mismatch

/-- helpers.rs `validate_farm_epochs` -/
def validateFarmEpochs (p : FarmParams) (cur buffer : Nat) : R (Nat × Nat) := do
  let curP1 ← fit U64_MAX (cur + 1) .panic
  let start := p.startEpoch.getD curP1
  if start ≤ cur then .error .invalidInput
  let dflt ← fit U64_MAX (start + C.DEFAULT_FARM_DURATION) .invalidInput
  let end_ := p.endEpoch.getD dflt
  if start ≥ end_ then .error .invalidInput
  if end_ ≤ cur then .error .invalidInput
  let lim ← ckAdd U64_MAX cur buffer
  if start > lim then .error .invalidInput
  pure (start, end_)

def createFarm (s : FmState) (env : FmEnv) (sender : Addr) (funds : List Coin) (p : FarmParams) :
    R (FmState × Response) := do
  let cfg := s.config
  if !validateLpDenom p.lpDenom cfg.poolManager then .error .mismatch
  let farms := s.farmsByLp p.lpDenom cfg.maxConcurrentFarms
  let cur ← fmCurrentEpoch s env
  let flags ← farms.mapM fun f => isFarmExpiredOrFalse s env f
  let expired := (farms.zip flags).filter (·.2) |>.map (·.1)
  let live := (farms.zip flags).filter (!·.2) |>.map (·.1)
  let (s1, subs) := closeFarms s expired
  if live.length ≥ cfg.maxConcurrentFarms then .error .limit
  if p.asset.amount < C.MIN_FARM_AMOUNT then .error .invalidInput
  let feeMsgs ← if cfg.createFarmFee.amount ≠ 0 then processFarmCreationFee cfg sender funds p.asset else pure []
  assertFarmAsset funds cfg.createFarmFee p.asset
  let (start, end_) ← validateFarmEpochs p cur cfg.maxFarmEpochBuffer
  let (fid, s2) := match p.farmId with
    | some i => (C.EXPLICIT_FARM_ID_PREFIX ++ i, s1)
    | none => (C.AUTO_FARM_ID_PREFIX ++ toString (s1.farmCounter + 1), { s1 with farmCounter := s1.farmCounter + 1 })
  if s2.farmCounter > U64_MAX then .error .panic
  if !validateIdentifier fid then .error .invalidInput
  if s2.farms.any (·.id == fid) then .error .exists_
  let rate ← divFloorFrac U128_MAX p.asset.amount (end_ - start) 1
  let f : Farm := {
    id := fid, owner := sender, lpDenom := p.lpDenom, assetDenom := p.asset.denom,
                    assetAmount := p.asset.amount, claimed := 0, emissionRate := rate,
                    startEpoch := start, endEpoch := end_ }
  pure (s2.saveFarm f,
    { msgs := (feeMsgs.map fun m => ({ msg := m } : SubMsg)) ++ subs, attrs := [("action", "create_farm")] })

def expandFarm (s : FmState) (env : FmEnv) (sender : Addr) (funds : List Coin) (p : FarmParams) :
    R (FmState × Response) := do
  let fid ← match p.farmId with | some i => pure i | none => .error .notFound
  let f ← s.getFarm fid
  if f.owner != sender then .error .unauthorized
  let cur ← fmCurrentEpoch s env
  if cur ≥ f.endEpoch then .error .invalidInput
  let ex ← isFarmExpired s env f
  if ex then .error .invalidInput
  if !validateLpDenom p.lpDenom s.config.poolManager then .error .mismatch
  let reward ← oneCoin funds
  if reward != p.asset then .error .mismatch
  if f.assetDenom != p.asset.denom then .error .mismatch
  if f.emissionRate = 0 then .error .panic
  if reward.amount % f.emissionRate ≠ 0 then .error .invalidInput
  let total ← ckAdd U128_MAX f.assetAmount reward.amount
  let extra := p.asset.amount / f.emissionRate
  let extra ← fit U64_MAX extra
  let newEnd ← fit U64_MAX (f.endEpoch + extra) .invalidInput
  pure (s.saveFarm { f with assetAmount := total, endEpoch := newEnd }, { attrs := [("action", "expand_farm")] })

def closeFarm (s : FmState) (sender : Addr) (funds : List Coin) (id : String) : R (FmState × Response) := do
  nonpayable funds
  let f ← s.getFarm id
  if !(f.owner == sender || s.owner.owner == some sender) then .error .unauthorized
  let (s1, subs) := closeFarms s [f]
  pure (s1, { msgs := subs, attrs := [("action", "close_farm")] })

def fmUpdateConfig (s : FmState) (env : FmEnv) (sender : Addr) (u : FmConfigUpdate) : R (FmState × Response) := do
  s.owner.assertOwner sender
  let c := s.config
  let chk (a : Option Addr) (dflt : Addr) : R Addr := match a with
    | some x => if env.validAddr x then pure x else .error .invalidInput
    | none => pure dflt
  let fc ← chk u.feeCollector c.feeCollector
  let em ← chk u.epochManager c.epochManager
  let pm ← chk u.poolManager c.poolManager
  let fee := u.createFarmFee.getD c.createFarmFee
  let mcf ← match u.maxConcurrentFarms with
    | some m => if m ≥ c.maxConcurrentFarms then pure m else .error .invalidInput
    | none => pure c.maxConcurrentFarms
  let buf := u.maxFarmEpochBuffer.getD c.maxFarmEpochBuffer
  let maxU ← match u.maxUnlocking with
    | some m => if m ≥ c.minUnlocking then pure m else .error .invalidInput
    | none => pure c.maxUnlocking
  let minU ← match u.minUnlocking with
    | some m => if maxU ≥ m then pure m else .error .invalidInput
    | none => pure c.minUnlocking
  let fet ← match u.farmExpirationTime with
    | some t => if t ≥ C.MONTH_IN_SECONDS then pure t else .error .invalidInput
    | none => pure c.farmExpirationTime
  let pen ← match u.emergencyUnlockPenalty with
    | some p => if p ≤ ONE18 then pure p else .error .invalidInput
    | none => pure c.emergencyUnlockPenalty
  pure ({ s with config := {
      feeCollector := fc, epochManager := em, poolManager := pm, createFarmFee := fee,
      maxConcurrentFarms := mcf, maxFarmEpochBuffer := buf, minUnlocking := minU, maxUnlocking := maxU,
      farmExpirationTime := fet, emergencyUnlockPenalty := pen } }, { attrs := [("action", "update_config")] })

/-- contract.rs `execute` -/
def fmExecute (s : FmState) (env : FmEnv) (sender : Addr) (funds : List Coin) (m : FmMsg) :
    R (FmState × Response) :=
  match m with
  | .createFarm p => createFarm s env sender funds p
  | .expandFarm p => expandFarm s env sender funds p
  | .closeFarm id => closeFarm s sender funds id
  | .claim u => fmClaim s env sender funds u
  | .createPosition id u r => createPosition s env sender funds id u r
  | .expandPosition id => expandPosition s env sender funds id
  | .closePosition id lp => closePosition s env sender funds id lp
  | .withdrawPosition id e => withdrawPosition s env sender funds id e
  | .updateConfig u => do
    nonpayable funds
    fmUpdateConfig s env sender u
  | .updateOwnership a => do
    nonpayable funds
    let o ← s.owner.update env.validAddr env.nowNs sender a
    pure ({ s with owner := o }, { attrs := [("action", "update_ownership")] })

/-- contract.rs `reply`: the close-farm refund failure is logged, nothing else -/
def fmReply (s : FmState) (id : Nat) : R (FmState × Response) :=
  if id = C.CLOSE_FARMS_ERR_REPLY_CODE then .ok (s, {}) else .error .other

end MantraDex
