/-
  C18 monitors: the property's predicate as a decidable (Bool) function of what was *observed*
  (used by the driver on the implementation's answers; proved to hold of the model in
  Properties/C18.lean, `mon_cur_sound`).
-/
import MantraDex.Model.Epoch

namespace MantraDex

/-- observed answer of `CurrentEpoch{}` at block time `nowNs`: `some (id, startNs)` or a failure -/
def monEpochCur (cfg : EpochConfig) (nowNs : Nat) (obs : Option (Nat × Nat)) : Bool :=
  let nowS := nowNs / NANOS
  match obs with
  | some (id, s) =>
    cfg.genesis ≤ nowS && cfg.duration ≠ 0 && id == (nowS - cfg.genesis) / cfg.duration &&
    s == (cfg.genesis + id * cfg.duration) * NANOS && s ≤ nowNs && nowNs < s + cfg.duration * NANOS &&
    s ≤ U64_MAX
  | none =>
    -- a failure is allowed only before genesis or when the start time is not representable
    nowS < cfg.genesis || cfg.duration == 0 ||
    (cfg.genesis + (nowS - cfg.genesis) / cfg.duration * cfg.duration) * NANOS > U64_MAX

/-- two observations at `t ≤ t'`: ids monotone, and +1 exactly one duration later -/
def monEpochPair (cfg : EpochConfig) (t t' : Nat) (o o' : Option (Nat × Nat)) : Bool :=
  match o, o' with
  | some (id, _), some (id', _) =>
    (t > t' || id ≤ id') && (t' / NANOS != t / NANOS + cfg.duration || id' == id + 1)
  | _, _ => true

/-- observed answer of `Epoch{id}` -/
def monEpochQuery (cfg : EpochConfig) (id : Nat) (obs : Option (Nat × Nat)) : Bool :=
  match obs with
  | some (i, s) => i == id && s == (cfg.genesis + id * cfg.duration) * NANOS && s ≤ U64_MAX
  | none => (cfg.genesis + id * cfg.duration) * NANOS > U64_MAX

end MantraDex
