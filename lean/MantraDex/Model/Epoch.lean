/-
  Epoch manager model: contracts/epoch-manager/src/{contract,commands,queries,helpers}.rs.
  Block time is a `Timestamp` = u64 *nanoseconds*; the contract only ever looks at whole seconds.
-/
import MantraDex.Model.Num
import MantraDex.Generated.Consts

namespace MantraDex

def NANOS : Nat := 1000000000

structure EpochConfig where
  duration : Nat   -- Uint64, seconds
  genesis  : Nat   -- Uint64, seconds
  deriving Repr, DecidableEq, Inhabited

/-- helpers.rs `validate_epoch_duration` -/
def validateEpochDuration (d : Nat) : R Unit :=
  if d ≥ C.DAY_IN_SECONDS then .ok () else .error .invalidInput

/-- the two checks shared by `instantiate` and `update_config` (in the order of the code they
    differ, which only matters for the error class of a doubly-invalid input) -/
def emInstantiate (nowNs : Nat) (cfg : EpochConfig) : R EpochConfig :=
  if cfg.genesis ≥ nowNs / NANOS then do
    validateEpochDuration cfg.duration
    pure cfg
  else .error .invalidInput

def emUpdateConfig (nowNs : Nat) (old : EpochConfig) (new : Option EpochConfig) : R EpochConfig :=
  match new with
  | none => .ok old
  | some cfg => do
    validateEpochDuration cfg.duration
    if cfg.genesis ≥ nowNs / NANOS then pure cfg else .error .invalidInput

/-- queries.rs `query_epoch`: `(id, start_time as Timestamp nanos)`.
    `Timestamp::from_seconds` multiplies by 10^9 with overflow checks on (panic). -/
def queryEpoch (cfg : EpochConfig) (id : Nat) : R (Nat × Nat) := do
  let m ← ckMul U64_MAX id cfg.duration
  let s ← ckAdd U64_MAX cfg.genesis m
  let ns ← fit U64_MAX (s * NANOS) .panic
  pure (id, ns)

/-- queries.rs `query_current_epoch`. -/
def currentEpoch (cfg : EpochConfig) (nowNs : Nat) : R (Nat × Nat) :=
  if nowNs / NANOS ≥ cfg.genesis then do
    -- `minus_seconds(genesis).seconds()`; genesis·10^9 ≤ now so neither step can fail
    let elapsed := (nowNs - cfg.genesis * NANOS) / NANOS
    let id ← divFloorFrac U64_MAX elapsed cfg.duration 1
    queryEpoch cfg id
  else .error .invalidInput

end MantraDex
