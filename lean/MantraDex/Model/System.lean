/-
  The whole system: four contracts + bank + token factory + block time, and the CosmWasm
  message-execution semantics (cw-multi-test 2.4.0 `WasmKeeper::execute_wasm` /
  `process_response` / `execute_submsg`) as a total function on fuel.
-/
import MantraDex.Model.PoolManager
import MantraDex.Model.FarmManager

namespace MantraDex

structure EmState where
  cfg : EpochConfig
  owner : Ownership
  deriving Repr, Inhabited

structure World where
  bank : Bank
  pm : PmState
  fm : FmState
  em : EmState
  fc : Ownership
  nowNs : Nat
  /-- token-factory denom creation fee (StargateMock: burned from the creator) -/
  tfFees : List Coin
  validAddr : Addr → Bool

def PM : Addr := "pm"
def FM : Addr := "fm"
def EM : Addr := "em"
def FC : Addr := "fc"

def isContract (a : Addr) : Bool := a == PM || a == FM || a == EM || a == FC

def World.pmEnv (w : World) : PmEnv := {
  self := PM, nowNs := w.nowNs, bal := w.bank.bal, supply := w.bank.supply, tfFees := w.tfFees,
  validAddr := w.validAddr,
  fmPosition := fun id =>
    if w.pm.config.farmManager == FM then (w.fm.getPosition id).map fun p => (p.id, p.receiver) else none }

def World.fmEnv (w : World) : FmEnv := {
  self := FM, nowNs := w.nowNs, validAddr := w.validAddr,
  emConfig := fun a => if a == EM then some w.em.cfg else none }

/-- epoch-manager `execute` -/
def emExecute (s : EmState) (validAddr : Addr → Bool) (nowNs : Nat) (sender : Addr) (funds : List Coin)
    (m : EmMsg) : R EmState := do
  nonpayable funds
  match m with
  | .updateConfig cfg => do
    s.owner.assertOwner sender
    let c ← emUpdateConfig nowNs s.cfg cfg
    pure { s with cfg := c }
  | .updateOwnership a => do
    let o ← s.owner.update validAddr nowNs sender a
    pure { s with owner := o }

/-- a contract's `execute` entry point -/
def callExecute (w : World) (c : Addr) (sender : Addr) (funds : List Coin) (m : ContractMsg) :
    R (World × Response) :=
  match m with
  | .pm pm => if c != PM then .error .other else do
      let (s, r) ← pmExecute w.pm w.pmEnv sender funds pm
      pure ({ w with pm := s }, r)
  | .fm fm => if c != FM then .error .other else do
      let (s, r) ← fmExecute w.fm w.fmEnv sender funds fm
      pure ({ w with fm := s }, r)
  | .em em => if c != EM then .error .other else do
      let s ← emExecute w.em w.validAddr w.nowNs sender funds em
      pure ({ w with em := s }, {})
  | .fc (.updateOwnership a) => if c != FC then .error .other else do
      nonpayable funds
      let o ← w.fc.update w.validAddr w.nowNs sender a
      pure ({ w with fc := o }, {})

/-- a contract's `reply` entry point (only the two managers have one) -/
def callReply (w : World) (c : Addr) (id : Nat) : R (World × Response) :=
  if c == PM then do
    let (s, r) ← pmReply w.pm w.pmEnv id
    pure ({ w with pm := s }, r)
  else if c == FM then do
    let (s, r) ← fmReply w.fm id
    pure ({ w with fm := s }, r)
  else .error .other

def ReplyOn.onSuccess : ReplyOn → Bool
  | .success | .always => true
  | _ => false

def ReplyOn.onError : ReplyOn → Bool
  | .error | .always => true
  | _ => false

/-- bank calls consumed by a *failed* leaf message whose failure is caught by a reply-on-error
    sub-message (the fault counter lives outside the rolled-back storage) -/
def Msg.callsWhenFailed : Msg → Nat
  | .wasmExec .. => 0
  | _ => 1

mutual
/-- execute one message sent by `sender` -/
def execMsg (fuel : Nat) (w : World) (sender : Addr) (m : Msg) : R World :=
  match fuel with
  | 0 => .error .other
  | fuel + 1 =>
    match m with
    | .bankSend to coins => do
      let b ← w.bank.send sender to coins
      pure { w with bank := b }
    | .bankBurn coins => do
      let b ← w.bank.burn sender coins
      pure { w with bank := b }
    | .tfCreateDenom _ => do
      let b ← w.bank.burn sender w.tfFees
      pure { w with bank := b }
    | .tfMint coin to => do
      let b ← w.bank.mint to [coin]
      pure { w with bank := b }
    | .tfBurn coin => do
      let b ← w.bank.burn sender [coin]
      pure { w with bank := b }
    | .wasmExec c msg funds =>
      if !isContract c then .error .other else do
      let w1 ← if funds.isEmpty then pure w else do
        let b ← w.bank.send sender c funds
        pure { w with bank := b }
      let (w2, resp) ← callExecute w1 c sender funds msg
      execSubs fuel w2 c resp.msgs

/-- run the sub-messages a contract returned, depth-first, each in its own rollback scope -/
def execSubs (fuel : Nat) (w : World) (contract : Addr) (subs : List SubMsg) : R World :=
  match fuel with
  | 0 => .error .other
  | fuel + 1 =>
    match subs with
    | [] => .ok w
    | sm :: rest =>
      match execMsg fuel w contract sm.msg with
      | .ok w' =>
        if sm.replyOn.onSuccess then do
          let (w'', resp) ← callReply w' contract sm.id
          let w3 ← execSubs fuel w'' contract resp.msgs
          execSubs fuel w3 contract rest
        else execSubs fuel w' contract rest
      | .error e =>
        if sm.replyOn.onError then do
          -- the sub-message's own changes are discarded; the fault counter is not storage
          let wr := { w with bank := { w.bank with calls := w.bank.calls + sm.msg.callsWhenFailed } }
          let (w'', resp) ← callReply wr contract sm.id
          let w3 ← execSubs fuel w'' contract resp.msgs
          execSubs fuel w3 contract rest
        else .error e
end

def FUEL : Nat := 64

/-- top-level operations of a history -/
inductive Tx where
  | exec (sender : Addr) (contract : Addr) (msg : ContractMsg) (funds : List Coin)
  | send (frm to : Addr) (coins : List Coin)        -- plain bank transfer (donation)
  | advance (ns : Nat)                              -- block time moves forward
  deriving Repr, Inhabited

/-- outcome of a transaction with an optional injected bank fault at the k-th bank call -/
def runTx (w : World) (tx : Tx) (failAt : Option Nat := none) : R World :=
  let w0 := { w with bank := { w.bank with calls := 0, failAt := failAt } }
  match tx with
  | .exec sender c msg funds => execMsg FUEL w0 sender (.wasmExec c msg funds)
  | .send frm to coins => execMsg FUEL w0 frm (.bankSend to coins)
  | .advance ns => .ok { w with nowNs := w.nowNs + ns }

/-- a transaction either commits or leaves the world exactly as it was -/
def step (w : World) (tx : Tx) (failAt : Option Nat := none) : World :=
  match runTx w tx failAt with
  | .ok w' => w'
  | .error _ => w

end MantraDex
