/-
  Environment of the contracts: bank module (balances + supply), token factory, message and
  sub-message types, ownership (cw-ownable), and the generic CosmWasm execution semantics the
  contracts rely on (cw-multi-test 2.4.0 `WasmKeeper`): funds move first, then the handler runs,
  then the returned sub-messages run depth-first, each in its own rollback scope.
-/
import MantraDex.Model.Pool
import MantraDex.Model.Epoch

namespace MantraDex

abbrev Addr := String
abbrev Denom := String

/-! ### bank -/

structure Bank where
  bal : Addr → Denom → Nat
  supply : Denom → Nat
  /-- number of bank-module calls executed so far in this transaction (fault injection) -/
  calls : Nat := 0
  /-- the k-th bank call (1-based) of the transaction fails, if set -/
  failAt : Option Nat := none

/-- `BankKeeper::normalize_amount`: zero coins are dropped; an empty result is an error -/
def normalizeCoins (cs : List Coin) : R (List Coin) :=
  let r := cs.filter (·.amount ≠ 0)
  if r.isEmpty then .error .bank else .ok r

def Bank.tick (b : Bank) : R Bank :=
  let n := b.calls + 1
  if b.failAt = some n then .error .bank else .ok { b with calls := n }

def Bank.subCoin (b : Bank) (a : Addr) (c : Coin) : R Bank :=
  if c.amount ≤ b.bal a c.denom then
    .ok { b with
      bal := fun a' d => if a' = a ∧ d = c.denom then b.bal a d - c.amount else b.bal a' d,
      supply := fun d => if d = c.denom then b.supply d - c.amount else b.supply d }
  else .error .bank

def Bank.addCoin (b : Bank) (a : Addr) (c : Coin) : Bank :=
  { b with
    bal := fun a' d => if a' = a ∧ d = c.denom then b.bal a d + c.amount else b.bal a' d,
    supply := fun d => if d = c.denom then b.supply d + c.amount else b.supply d }

/-- burn without counting a call (internal) -/
def Bank.burnRaw (b : Bank) (a : Addr) (cs : List Coin) : R Bank := do
  let cs ← normalizeCoins cs
  cs.foldlM (fun b c => b.subCoin a c) b

def Bank.mintRaw (b : Bank) (a : Addr) (cs : List Coin) : R Bank := do
  let cs ← normalizeCoins cs
  pure (cs.foldl (fun b c => b.addCoin a c) b)

/-- `BankMsg::Send` = burn from the sender then mint to the recipient (one bank call) -/
def Bank.send (b : Bank) (frm to : Addr) (cs : List Coin) : R Bank := do
  let b ← b.tick
  let b ← b.burnRaw frm cs
  b.mintRaw to cs

/-- `BankMsg::Burn` (one bank call) -/
def Bank.burn (b : Bank) (frm : Addr) (cs : List Coin) : R Bank := do
  let b ← b.tick
  b.burnRaw frm cs

/-- `BankSudo::Mint` (one bank call) -/
def Bank.mint (b : Bank) (to : Addr) (cs : List Coin) : R Bank := do
  let b ← b.tick
  b.mintRaw to cs

/-! ### ownership (cw-ownable 2.1.0) -/

structure Ownership where
  owner : Option Addr
  pending : Option Addr := none
  /-- `Expiration::AtTime` in nanoseconds, `AtHeight` is not used by the harness -/
  pendingExpiry : Option Nat := none
  deriving Repr, DecidableEq, Inhabited

inductive OwnAction where
  | transfer (newOwner : Addr) (expiryNs : Option Nat)
  | accept
  | renounce
  deriving Repr, DecidableEq, Inhabited

def Ownership.assertOwner (o : Ownership) (sender : Addr) : R Unit :=
  match o.owner with
  | some a => if a = sender then .ok () else .error .ownership
  | none => .error .ownership

/-- `cw_ownable::update_ownership`; `validAddr` stands for `addr_validate` -/
def Ownership.update (o : Ownership) (validAddr : Addr → Bool) (nowNs : Nat) (sender : Addr)
    (a : OwnAction) : R Ownership :=
  match a with
  | .transfer newOwner expiry => do
    o.assertOwner sender
    -- the expiry is deliberately not validated by cw-ownable
    if ¬ validAddr newOwner then .error .invalidInput else
    pure { o with pending := some newOwner, pendingExpiry := expiry }
  | .accept =>
    match o.pending with
    | none => .error .ownership
    | some p =>
      if p ≠ sender then .error .ownership else
      match o.pendingExpiry with
      | some e => if e ≤ nowNs then .error .ownership else
          pure { owner := some p, pending := none, pendingExpiry := none }
      | none => pure { owner := some p, pending := none, pendingExpiry := none }
  | .renounce => do
    o.assertOwner sender
    pure { owner := none, pending := none, pendingExpiry := none }

/-! ### messages -/

inductive ReplyOn where | never | success | error | always
  deriving Repr, DecidableEq, Inhabited

structure SwapOp where
  tokenIn : Denom
  tokenOut : Denom
  poolId : String
  deriving Repr, DecidableEq, Inhabited

structure FeatureToggle where
  poolId : String
  swaps : Option Bool
  deposits : Option Bool
  withdrawals : Option Bool
  deriving Repr, DecidableEq, Inhabited

/-- pool-manager `ExecuteMsg` -/
inductive PmMsg where
  | createPool (denoms : List Denom) (decimals : List Nat) (fees : PoolFee) (ptype : PoolType)
      (id : Option String)
  | provideLiquidity (liqSlip swapSlip : Option Nat) (receiver : Option Addr) (poolId : String)
      (unlocking : Option Nat) (lockId : Option String)
  | swap (askDenom : Denom) (belief maxSlip : Option Nat) (receiver : Option Addr) (poolId : String)
  | withdrawLiquidity (poolId : String)
  | execSwapOps (ops : List SwapOp) (minReceive : Option Nat) (receiver : Option Addr)
      (maxSlip : Option Nat)
  | updateConfig (feeCollector farmManager : Option Addr) (creationFee : Option Coin)
      (toggle : Option FeatureToggle)
  | updateOwnership (a : OwnAction)
  deriving Repr, Inhabited

structure FarmParams where
  lpDenom : Denom
  startEpoch : Option Nat
  endEpoch : Option Nat
  asset : Coin
  farmId : Option String
  deriving Repr, DecidableEq, Inhabited

structure FmConfigUpdate where
  feeCollector : Option Addr := none
  epochManager : Option Addr := none
  poolManager : Option Addr := none
  createFarmFee : Option Coin := none
  maxConcurrentFarms : Option Nat := none
  maxFarmEpochBuffer : Option Nat := none
  minUnlocking : Option Nat := none
  maxUnlocking : Option Nat := none
  farmExpirationTime : Option Nat := none
  emergencyUnlockPenalty : Option Nat := none
  deriving Repr, DecidableEq, Inhabited

/-- farm-manager `ExecuteMsg` -/
inductive FmMsg where
  | createFarm (p : FarmParams)
  | expandFarm (p : FarmParams)
  | closeFarm (id : String)
  | claim (untilEpoch : Option Nat)
  | createPosition (id : Option String) (unlocking : Nat) (receiver : Option Addr)
  | expandPosition (id : String)
  | closePosition (id : String) (lp : Option Coin)
  | withdrawPosition (id : String) (emergency : Option Bool)
  | updateConfig (u : FmConfigUpdate)
  | updateOwnership (a : OwnAction)
  deriving Repr, Inhabited

inductive EmMsg where
  | updateConfig (cfg : Option EpochConfig)
  | updateOwnership (a : OwnAction)
  deriving Repr, Inhabited

inductive FcMsg where
  | updateOwnership (a : OwnAction)
  deriving Repr, Inhabited

inductive ContractMsg where
  | pm (m : PmMsg)
  | fm (m : FmMsg)
  | em (m : EmMsg)
  | fc (m : FcMsg)
  deriving Repr, Inhabited

/-- `CosmosMsg` as emitted by the four contracts -/
inductive Msg where
  | bankSend (to : Addr) (coins : List Coin)
  | bankBurn (coins : List Coin)
  | tfCreateDenom (subdenom : String)
  | tfMint (coin : Coin) (to : Addr)
  | tfBurn (coin : Coin)
  | wasmExec (contract : Addr) (msg : ContractMsg) (funds : List Coin)
  deriving Repr, Inhabited

structure SubMsg where
  msg : Msg
  replyOn : ReplyOn := .never
  id : Nat := 0
  deriving Repr, Inhabited

/-- a handler's `Response`: only the sub-messages matter for state; attributes that a property
    refers to are carried in `attrs` as (key, value) -/
structure Response where
  msgs : List SubMsg := []
  attrs : List (String × String) := []
  deriving Repr, Inhabited

def Response.ofMsgs (ms : List Msg) (attrs : List (String × String) := []) : Response :=
  { msgs := ms.map fun m => { msg := m }, attrs := attrs }

end MantraDex
