/-
  Monitors for the history streams: the properties' predicates as Bool functions of what the
  harness *observed* on the real contracts (balances, reserves, supplies, event attributes before
  and after a transaction).  Each returns `none` when the predicate holds, or `some tag` naming the
  clause that failed (tags are matched against known_findings.json).
-/
import MantraDex.Model.Pool
import MantraDex.Spec.Ledger

namespace MantraDex

abbrev Verdict := Option String

/-- the tags of ALL failing clauses, in order, without repetitions, joined by commas (`none` = every clause
    holds).  A monitor decides clauses of several properties at once; each property's check looks for its own
    tags in the list, so a failing input is attributed to every property it refutes (the name is historical:
    the function used to return the first failing tag only, which hid the others). -/
def firstFail (xs : List (Bool × String)) : Verdict :=
  let bad := (xs.filter (fun x => !x.1)).map (·.2)
  let bad := bad.foldl (fun acc t => if acc.contains t then acc else acc ++ [t]) []
  match bad with
  | [] => none
  | _ => some (",".intercalate bad)

/-- C01: for every token the pool manager's balance covers the sum of the reserves -/
def monPmCustody (xs : List (Nat × Nat)) : Verdict :=
  firstFail [(xs.all fun x => x.2 ≤ x.1, "C01-custody")]

/-- minimum liquidity locked at the first deposit -/
def lockedMin (cp : Bool) (minD maxD : Nat) : Nat :=
  if cp then C.MINIMUM_LIQUIDITY_AMOUNT else C.MINIMUM_LIQUIDITY_AMOUNT * 10 ^ (maxD - minD)

/-- C01/C02: the only LP the pool manager holds is each funded pool's locked minimum, and the
    supply of a funded pool never falls below it.  `tainted`: somebody explicitly directed LP or
    swap output to the pool manager (a donation by choice), then only `≥` is required. -/
def monPmLp (tainted : Bool) (xs : List (Nat × Bool × Nat × Nat × Nat)) : Verdict :=
  firstFail (xs.flatMap fun (pmBal, cp, minD, maxD, supply) =>
    let l := lockedMin cp minD maxD
    if supply > 0 then
      [(l ≤ supply, "C02-min-supply"), (l ≤ pmBal, "C01-lp-held"), (tainted || pmBal == l, "C01-lp-held")]
    else [(tainted || pmBal == 0, "C01-lp-held")])

/-- C01: excess (balance − reserves) moves by exactly the donation and the odd unit -/
def monPmExcess (balB sumB balA sumA donated odd : Nat) : Verdict :=
  firstFail [(sumA ≤ balA, "C01-custody"), (sumB ≤ balB, "C01-custody"),
             (balA - sumA == balB - sumB + donated + odd, "C01-excess")]

/-- C02 (constant product): a deposit never mints more than the proportional contribution and
    never lowers x·y / supply² -/
def monCpDeposit (x y dx dy s minted locked x' y' : Nat) : Verdict :=
  if s = 0 then
    firstFail [(x' == x + dx && y' == y + dy, "C02-deposit-added"),
               (locked == C.MINIMUM_LIQUIDITY_AMOUNT, "C02-min-supply"),
               (minted * minted ≤ dx * dy, "C02-cp-deposit")]
  else
    firstFail [(x' == x + dx && y' == y + dy, "C02-deposit-added"),
               (locked == 0, "C01-lp-held"),
               (minted * x ≤ dx * s && minted * y ≤ dy * s, "C02-cp-deposit"),
               (x * y * ((s + minted) * (s + minted)) ≤ x' * y' * (s * s), "C02-cp-deposit")]

/-- C02: refund ≤ reserve·burned/supply (never more), the sender receives exactly what left the
    reserves; lower bound (at least pro rata minus one unit) reported under its own tag -/
def monWithdraw (burned supply : Nat) (xs : List (Nat × Nat × Nat)) : Verdict :=
  firstFail (xs.flatMap fun (reserve, refund, got) =>
    [(refund * supply ≤ reserve * burned, "C02-withdraw-upper-bound"),
     (got == refund, "C02-withdraw-paid"),
     (supply == 0 || reserve * burned / supply ≤ refund + 1, "C02-withdraw-lower-bound")])

/-- C02: while withdrawals are enabled a holder can redeem any LP amount worth ≥ 1 unit of some asset -/
def monWithdrawRejected (burned supply : Nat) (reserves : List Nat) : Verdict :=
  firstFail [(!(burned ≤ supply && reserves.any fun r => supply ≤ r * burned), "C02-redeemable")]

/-- C03/C04: offer added in full, ask reserve reduced by exactly what leaves; x·y never decreases -/
def monSwapReserves (cp : Bool) (x y offer x' y' ret pf bf : Nat) : Verdict :=
  firstFail [(x' == x + offer, "C04-conservation"), (y' + ret + pf + bf == y, "C04-conservation"),
             (!cp || x * y ≤ x' * y', "C03-k")]

/-- C04: each fee is the configured share of the gross output rounded down -/
def monSwapFees (f : PoolFee) (ret sf pf bf ef : Nat) : Verdict :=
  let gross := ret + sf + pf + bf + ef
  firstFail [(sf == gross * f.swap / ONE18, "C04-fee-share"), (pf == gross * f.protocol / ONE18, "C04-fee-share"),
             (bf == gross * f.burn / ONE18, "C04-fee-share"),
             (ef == (f.extra.map fun e => gross * e / ONE18).foldl (· + ·) 0, "C04-fee-share")]

/-- C04: bank deltas of a direct swap -/
def monSwapBank (offer ret pf bf : Nat) (senderPaid recvGot recvOffer fcGot pmOffer pmAskOut others : Int) : Verdict :=
  firstFail [(senderPaid == offer, "C04-bank"), (recvGot == ret, "C04-bank"), (recvOffer == 0, "C04-bank"),
             (fcGot == pf, "C04-bank"), (pmOffer == offer, "C04-bank"), (pmAskOut == ret + pf + bf, "C04-bank"),
             (others == 0, "C04-bank")]

/-- C13 (constant product): an executed swap's price impact plus fees, measured against the
    pre-trade pool price, is within min(tolerance or 1 %, 50 %).  `net` is the amount delivered (for a
    route hop: an upper bound of it, which only makes the check weaker). -/
def monCpSlippage (tol : Option Nat) (x y offer net : Nat) : Verdict :=
  if x = 0 then none else
  let ideal := offer * (y * ONE18 / x) / ONE18
  let eff := min (tol.getD C.DEFAULT_SLIPPAGE) C.MAX_ALLOWED_SLIPPAGE
  firstFail [(ideal ≤ net || ideal = 0 || (ideal - net) * ONE18 / ideal ≤ eff, "C13-slippage-exceeded")]

def hasDup : List String → Bool
  | [] => false
  | x :: xs => xs.contains x || hasDup xs

/-- C16: what every stored pool looks like: 2 assets (constant product) or 2-4 (stableswap, amp > 0),
    pairwise distinct, one decimals entry per asset, every fee below 100 % and at most 20 % in total -/
def monPoolWf (cp : Bool) (amp : Nat) (denoms : List String) (ndec : Nat) (fees : List Nat) : Verdict :=
  firstFail [
    (if cp then denoms.length == 2 else (C.MIN_ASSETS_PER_POOL ≤ denoms.length && denoms.length ≤ C.MAX_ASSETS_PER_POOL && 0 < amp), "C16-asset-count"),
    (!hasDup denoms, "C16-repeated-asset"),
    (ndec == denoms.length, "C16-decimals-mismatch"),
    (fees.all (· < ONE18), "C16-fee-100"),
    (fees.foldl (· + ·) 0 ≤ C.MAX_TOTAL_FEE_PERCENT, "C16-fee-total")]

/-- C12 (constant product): offering one unit more than the reverse quote for `ask` returned `ret`.
    Shortfalls of at most `ask / 10^18 + 1` units on fee-charging pools are the known class F-09 (the
    quote grosses the request up with an 18-digit reciprocal of `1 - fees`). -/
def monRev (ask fees ret : Nat) : Verdict :=
  if ask ≤ ret then none
  else if fees ≠ 0 && ask - ret ≤ ask / ONE18 + 1 then some "C12-reverse-short-minor"
  else some "C12-reverse-short"

/-- C08: a withdrawal is accepted only from the owner, and without the emergency flag only for a
    closed position whose unlock instant has been reached -/
def monWithdrawPosAccept (ok isOwner emergency : Bool) (expiring : Option Nat) (now : Nat) : Verdict :=
  if !ok then none else
  firstFail [(isOwner, "C08-owner"),
             (emergency || (match expiring with | some e => e ≤ now | none => false), "C08-unlock")]

/-- C08/C09: what the farm manager pays on a withdrawal -/
def monWithdrawPos (amount : Nat) (ownerGot fcGot ownersGot fmOut : Int) (emergencyActive gone : Bool) : Verdict :=
  firstFail [(gone, "C08-deleted"), (fmOut == ownerGot + fcGot + ownersGot, "C09-split"),
             (fmOut ≤ amount, "C09-split"), (0 ≤ ownerGot && 0 ≤ fcGot && 0 ≤ ownersGot, "C09-split"),
             (emergencyActive || (ownerGot == amount && fcGot == 0 && ownersGot == 0), "C08-withdraw-exact"),
             (!emergencyActive || amount ≤ ownerGot * 10 + ownersGot * 10, "C09-cap")]

/-- C08 (`mon_close_expiry`): a position closed by a close unlocks exactly its own recorded duration after the block time -/
def monCloseExpiry (e : Option Nat) (now d : Nat) : Verdict :=
  firstFail [(e == some (now + d), "C08-expiry")]

/-- C09 (`mon_penalty_total`): out of the position's amount only the dust of the division among the `n` distinct active farm
    owners (fewer than `max n 1` units) stays behind in the farm manager -/
def monPenaltyTotal (amt : Nat) (out : Int) (n : Nat) : Verdict :=
  firstFail [(decide (out ≤ (amt : Int)) && decide ((amt : Int) - out < ((max n 1 : Nat) : Int)), "C09-penalty-not-distributed")]

/-- C14 (`mon_single_shape`): an ACCEPTED single-asset deposit went into a pool with exactly two assets that held liquidity -/
def monSingleShape (n : Nat) (empty : Bool) : Verdict :=
  if n != 2 then some "C14-larger-pool" else if empty then some "C14-empty-pool" else none

/-- C12 (`mon_route_unquoted`): a route that EXECUTED although `SimulateSwapOperations` refused to price it an instant before;
    `clean` = pools pairwise distinct and no denom produced by two hops (otherwise the query's per-denom totals may overflow) -/
def monRouteUnquoted (clean : Bool) : Verdict :=
  if clean then some "C12-route-quote" else none

/-- C05 (`mon_fm_custody`): per denom (farm manager's balance, recorded LP of all positions, funded − claimed of all farms,
    "a sum did not fit" flag): the balance covers positions + farms -/
def monFmCustody (xs : List (Nat × Nat × Nat × Bool)) : Verdict :=
  firstFail [(xs.all (fun x => decide (x.2.1 + x.2.2.1 ≤ x.1) && !x.2.2.2), "C05-custody")]

/-- C10 (`mon_weights`, `mon_weights_epoch`): the total weight covers the sum of the users' weights -/
def monWeightsCover (total users : Nat) : Verdict :=
  firstFail [(decide (users ≤ total), "C10-total-covers")]

/-- C11 (`mon_farm_expand`): an accepted expansion adds exactly what was attached and extends the end by attached / rate -/
def monFarmExpand (rate attached endB endA amtB amtA : Nat) (same : Bool) : Verdict :=
  if rate == 0 then none
  else if amtA != amtB + attached then some "C11-expand-budget"
  else if endA != endB + attached / rate then some "C11-expand-end"
  else if !same then some "C11-expand-other-fields" else none

/-- C11 (`mon_farm_create`): declared reward, fee due, what the fee collector got, anything else taken from the creator, the
    recorded budget of the new farm -/
def monFarmCreate (aa fee : Nat) (fc extra : Int) (fa : Nat) : Verdict :=
  if extra != 0 then some "C11-create-exact" else if fc != (fee : Int) then some "C11-fee-routed"
  else if fa != aa then some "C11-budget" else none

/-- C11 (`mon_farm_close`): an explicit close refunds exactly the unclaimed remainder to the owner, to nobody else -/
def monFarmClose (remaining : Nat) (ownerGot fmOut others : Int) : Verdict :=
  firstFail [(ownerGot == (remaining : Int) && fmOut == (remaining : Int) && others == 0, "C11-close-refund")]

/-- C03 (`mon_hop_k`): reported reserves of a constant-product pool after a hop of a route against the reserves reported after
    the previous visit of that pool in the same route (or before the transaction): the product never decreases -/
def monHopK (x y x' y' : Nat) : Verdict :=
  firstFail [(decide (x * y ≤ x' * y'), "C03-k")]

/-- C10 / C07 (`mon_topup_weight`): after a top-up of an open position the OWNER's latest weight grew and nobody else's changed -/
def monTopupWeight (ownerGrew : Bool) (othersChanged : Nat) : Verdict :=
  firstFail [(ownerGrew && othersChanged == 0, "C10-weight-misattributed")]

/-- C08 / C05 (`mon_topup_backed`): the recorded amount grew by exactly the LP of the position's own denom the farm manager received -/
def monTopupBacked (grown : Nat) (fmGot : Int) : Verdict :=
  firstFail [(fmGot == (grown : Int), "C08-topup-unbacked,C05-custody")]

/-- C10 (`mon_exit_weight`): leaving with a position that was still open takes its weight away — as far as it is still
    recorded: the owner's and the total's latest weight both lose min(weight of the position, owner's recorded weight)
    (`MonSoundG.exit_weights`).  So when the owner's recorded weight is positive both become strictly smaller; when it had been
    clamped to zero by earlier piecewise operations (the known drift of the F-07 clamp, `C10Eq.pieces_not_exact`) the total
    stays exactly as it was. -/
def monExitWeight (ub ua tb ta : Nat) : Verdict :=
  firstFail [(if ub == 0 then ua == 0 && ta == tb else decide (ua < ub) && decide (ta < tb), "C10-weight-kept")]

/-- C13 (`mon_min_receive`): an executed route delivered at least its `minimum_receive` -/
def monMinReceive (mr got : Nat) : Verdict :=
  firstFail [(decide (mr ≤ got), "C13-minimum-receive")]

/-- C12 (`mon_quote`): the Simulation answer taken an instant before = what the swap reports (return, spread, fees) -/
def monQuote (q x : List Nat) : Verdict :=
  firstFail [(q == x, "C12-quote")]

/-- one LP token's slice of a claim: entry epoch, user and total change points, and its farms as
    (rate, start, end, reward denom, observed increase of `claimed_amount`) -/
structure ClaimLp where
  entry : Nat
  uh : List (Nat × Nat)
  th : List (Nat × Nat)
  /-- change points of every other user of the LP token (their sum with `uh` is independent of the
      contract's own total `th`) -/
  others : List (List (Nat × Nat)) := []
  farms : List (Nat × Nat × Nat × String × Nat)

/-- the user's share of a span when the total is taken as the *sum of all users' weights* instead of
    the contract's recorded total: if every user is paid at most this, an epoch's payments add up to
    at most its emission (`C07Split.epoch_shares_sum_le_rate`) -/
def spanRewardOfUsers (rate start end_ : Nat) (uh : List (Nat × Nat)) (others : List (List (Nat × Nat)))
    (first until_ : Nat) : Nat :=
  ((List.range (until_ + 1 - first)).map fun i =>
    let e := first + i
    if start ≤ e ∧ e < end_ then
      let t := Spec.weightAt uh e + (others.map fun h => Spec.weightAt h e).foldl (· + ·) 0
      if t = 0 then 0 else rate * Spec.weightAt uh e / t
    else 0).foldl (· + ·) 0

/-- C06/C07: an accepted claim pays, per farm and per denom, exactly the ledger's entitlement for
    the epochs it covers — never more (C06), never less (C07); `claimed_amount` moves by exactly what
    is paid; the Rewards query taken just before equals the payout. -/
def monClaim (until_ : Nat) (cursor : Option Nat) (lps : List ClaimLp)
    (paid : List (String × Int × Int)) (quote : Option (List (String × Nat))) : Verdict :=
  let perFarm := lps.flatMap fun l =>
    l.farms.map fun (rate, start, end_, denom, cd) =>
      (denom, Spec.spanReward ⟨rate, start, end_⟩ l.uh l.th (Spec.firstEpoch cursor l.entry) until_, cd)
  let expectedOf (d : String) : Nat := ((perFarm.filter (·.1 == d)).map (·.2.1)).foldl (· + ·) 0
  let c1 : List (Bool × String) := perFarm.map fun x => (decide (x.2.2 ≤ x.2.1), "C06-overpaid")
  let c2 : List (Bool × String) := perFarm.map fun x => (decide (x.2.1 ≤ x.2.2), "C07-underpaid")
  -- C06, all users together: nobody is paid more than their share of the *sum of the users' weights*
  let c0 : List (Bool × String) := lps.flatMap fun l =>
    l.farms.map fun (rate, start, end_, _, cd) =>
      (decide (cd ≤ spanRewardOfUsers rate start end_ l.uh l.others (Spec.firstEpoch cursor l.entry) until_),
       "C06-exceeds-emission-share")
  let c3 : List (Bool × String) := paid.flatMap fun x =>
    [(decide (x.2.1 ≤ (expectedOf x.1 : Int)), "C06-overpaid"),
     (decide ((expectedOf x.1 : Int) ≤ x.2.1), "C07-underpaid"),
     (x.2.1 == x.2.2, "C05-claim-accounting")]
  let c4 : List (Bool × String) := match quote with
    | none => []
    | some q => paid.map fun x =>
        (((q.find? (·.1 == x.1)).map (·.2)).getD 0 == x.2.1.toNat, "C07-query-ne-claim")
  firstFail (c1 ++ c2 ++ c3 ++ c4 ++ c0)

end MantraDex
