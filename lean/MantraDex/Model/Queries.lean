/-
  Query entry points that the execution handlers do not use: pool-manager `queries.rs`
  (`query_reverse_simulation` incl. the stableswap branch, `simulate_swap_operations` and
  `reverse_simulate_swap_operations` with their aggregated fee lists, `query_asset_decimals`,
  `get_pools` paging) and farm-manager `queries.rs` / `state.rs` (`query_farms`, `query_positions`
  with filters and paging, `query_lp_weight`).
-/
import MantraDex.Model.System

namespace MantraDex

/-- queries.rs `query_reverse_simulation`, both pool types -/
def queryReverseSimulation (s : PmState) (ask : Coin) (offerDenom : Denom) (poolId : String) :
    R OfferAmountComputation := do
  let pool ← s.getPool poolId
  let (oc, ac, _, _, od, ad) ← getAssetIndexes pool offerDenom ask.denom
  match pool.ptype with
  | .cp => computeOfferAmount oc.amount ac.amount ask.amount pool.fees
  | .stable amp => do
    let offerPool ← decWithPrecision oc.amount od
    let askPool ← decWithPrecision ac.amount ad
    let extra ← pool.fees.extra.foldlM (fun acc sh => ckAdd U256_MAX acc sh) 0
    let r ← ckSub ONE18 pool.fees.protocol
    let r ← ckSub r pool.fees.swap
    let r ← ckSub r pool.fees.burn
    let r ← ckSub r extra
    let inv := (decInv r).getD ONE18
    let askDec ← decWithPrecision ask.amount ad
    let beforeFees ← decMul U256_MAX inv askDec
    let beforeFeesOffer ← decToUintWithPrecision beforeFees od
    let beforeFeesAsk ← decToUintWithPrecision beforeFees ad
    let maxP := (listMax pool.decimals).getD (max od ad)
    let newOfferPool ← calculateStableswapY pool oc.denom ac.denom askPool beforeFees amp .reverse
    let offerPoolU ← decToUintWithPrecision offerPool maxP
    let offerAmount ← ckSub newOfferPool offerPoolU
    let offerAmount ←
      if maxP = od then pure offerAmount
      else if maxP < od then do
        -- `10u128.pow(k)` panics for k ≥ 39
        if od - maxP ≥ 39 then .error .panic
        ckMul U256_MAX offerAmount (10 ^ (od - maxP))
      else do
        if maxP - od ≥ 39 then .error .panic
        ckDiv offerAmount (10 ^ (maxP - od))
    let slippage := offerAmount - beforeFeesOffer       -- saturating_sub
    let sf ← feeCompute pool.fees.swap beforeFeesAsk
    let pf ← feeCompute pool.fees.protocol beforeFeesAsk
    let bf ← feeCompute pool.fees.burn beforeFeesAsk
    let ef ← pool.fees.extra.foldlM (fun acc sh => do
      let x ← feeCompute sh beforeFeesAsk
      ckAdd U256_MAX acc x) 0
    let offerAmount ← fit U128_MAX offerAmount
    let slippage ← fit U128_MAX slippage
    let sf ← fit U128_MAX sf
    let pf ← fit U128_MAX pf
    let bf ← fit U128_MAX bf
    let ef ← fit U128_MAX ef
    pure ⟨offerAmount, slippage, sf, pf, bf, ef⟩

/-- the five aggregated fee lists of the two route simulations -/
structure RouteSim where
  amount : Nat
  slippage : List Coin
  swapFees : List Coin
  protocolFees : List Coin
  burnFees : List Coin
  extraFees : List Coin
  deriving Repr, Inhabited

def pushPos (l : List Coin) (a : Nat) (d : Denom) : List Coin := if a > 0 then l ++ [⟨d, a⟩] else l

/-- queries.rs `simulate_swap_operations` with all the response fields -/
def simulateSwapOpsFull (s : PmState) (offerAmount : Nat) (ops : List SwapOp) : R RouteSim := do
  if ops.isEmpty then .error .invalidInput
  let r ← ops.foldlM (fun (acc : RouteSim) op => do
    let c ← querySimulation s ⟨op.tokenIn, acc.amount⟩ op.tokenOut op.poolId
    pure { amount := c.ret, slippage := pushPos acc.slippage c.slippage op.tokenOut,
           swapFees := pushPos acc.swapFees c.swapFee op.tokenOut,
           protocolFees := pushPos acc.protocolFees c.protocolFee op.tokenOut,
           burnFees := pushPos acc.burnFees c.burnFee op.tokenOut,
           extraFees := pushPos acc.extraFees c.extraFees op.tokenOut })
    { amount := offerAmount, slippage := [], swapFees := [], protocolFees := [], burnFees := [], extraFees := [] }
  let a ← aggregateCoins r.slippage
  let b ← aggregateCoins r.swapFees
  let c ← aggregateCoins r.protocolFees
  let d ← aggregateCoins r.burnFees
  let e ← aggregateCoins r.extraFees
  pure { r with slippage := a, swapFees := b, protocolFees := c, burnFees := d, extraFees := e }

/-- queries.rs `reverse_simulate_swap_operations`: the operations are walked backwards -/
def reverseSimulateSwapOps (s : PmState) (askAmount : Nat) (ops : List SwapOp) : R RouteSim := do
  if ops.isEmpty then .error .invalidInput
  let r ← ops.reverse.foldlM (fun (acc : RouteSim) op => do
    let c ← queryReverseSimulation s ⟨op.tokenOut, acc.amount⟩ op.tokenIn op.poolId
    pure { amount := c.offer, slippage := pushPos acc.slippage c.slippage op.tokenOut,
           swapFees := pushPos acc.swapFees c.swapFee op.tokenOut,
           protocolFees := pushPos acc.protocolFees c.protocolFee op.tokenOut,
           burnFees := pushPos acc.burnFees c.burnFee op.tokenOut,
           extraFees := pushPos acc.extraFees c.extraFees op.tokenOut })
    { amount := askAmount, slippage := [], swapFees := [], protocolFees := [], burnFees := [], extraFees := [] }
  let a ← aggregateCoins r.slippage
  let b ← aggregateCoins r.swapFees
  let c ← aggregateCoins r.protocolFees
  let d ← aggregateCoins r.burnFees
  let e ← aggregateCoins r.extraFees
  pure { r with slippage := a, swapFees := b, protocolFees := c, burnFees := d, extraFees := e }

/-- queries.rs `query_asset_decimals` -/
def queryAssetDecimals (s : PmState) (poolId : String) (denom : Denom) : R Nat := do
  let pool ← s.getPool poolId
  match findIdx (· == denom) pool.denoms with
  | some i => getD? pool.decimals i
  | none => .error .mismatch

/-- queries.rs `get_pools`: one pool by identifier, or a page in identifier order -/
def queryPools (s : PmState) (id : Option String) (startAfter : Option String) (limit : Option Nat) :
    R (List PoolInfo) :=
  match id with
  | some i => do let p ← s.getPool i; pure [p]
  | none =>
    let lim := min (limit.getD C.PM_QUERY_DEFAULT_LIMIT) C.PM_QUERY_MAX_LIMIT
    let ps := match startAfter with
      | some a => s.pools.filter (fun (p : PoolInfo) => a < p.id)
      | none => s.pools
    pure (ps.take lim)

/-! ### farm manager -/

inductive FarmsBy where
  | identifier (id : String)
  | lpDenom (d : Denom)
  | farmAsset (d : Denom)
  deriving Repr, Inhabited

/-- state.rs paging: `limit.unwrap_or(DEFAULT_LIMIT).min(MAX_FARMS_LIMIT)`, exclusive start -/
def pageFarms (fs : List Farm) (startAfter : Option String) (limit : Option Nat) : List Farm :=
  let lim := min (limit.getD C.FM_DEFAULT_LIMIT) C.MAX_FARMS_LIMIT
  let fs := match startAfter with
    | some a => fs.filter (fun (f : Farm) => a < f.id)
    | none => fs
  fs.take lim

/-- queries.rs `query_farms` -/
def queryFarms (s : FmState) (by_ : Option FarmsBy) (startAfter : Option String) (limit : Option Nat) :
    R (List Farm) :=
  match by_ with
  | some (.identifier id) => do let f ← s.getFarm id; pure [f]
  | some (.lpDenom d) => pure (pageFarms (s.farms.filter (·.lpDenom == d)) startAfter limit)
  | some (.farmAsset d) => pure (pageFarms (s.farms.filter (·.assetDenom == d)) startAfter limit)
  | none => pure (pageFarms s.farms startAfter limit)

inductive PositionsBy where
  | identifier (id : String)
  | receiver (a : Addr)
  deriving Repr, Inhabited

def pagePositions (ps : List Position) (startAfter : Option String) (limit : Option Nat) : List Position :=
  let lim := min (limit.getD C.FM_DEFAULT_LIMIT) C.MAX_POSITIONS_LIMIT
  let ps := match startAfter with
    | some a => ps.filter (fun (p : Position) => a < p.id)
    | none => ps
  ps.take lim

/-- queries.rs `query_positions` -/
def queryPositions (s : FmState) (by_ : Option PositionsBy) (open_ : Option Bool) (startAfter : Option String)
    (limit : Option Nat) : R (List Position) :=
  match by_ with
  | some (.identifier id) =>
    match s.getPosition id with
    | some p => pure [p]
    | none => .error .notFound
  | some (.receiver a) =>
    let ps := s.positions.filter fun (p : Position) => p.receiver == a && (match open_ with | some o => p.open_ == o | none => true)
    pure (pagePositions ps startAfter limit)
  | none => pure (pagePositions s.positions startAfter limit)

/-- queries.rs `query_lp_weight`: the snapshot stored AT that epoch (not the weight in effect) -/
def queryLpWeight (s : FmState) (env : FmEnv) (address : Addr) (denom : Denom) (epoch : Nat) : R Nat := do
  if !env.validAddr address then .error .invalidInput
  match histGet (s.hist address denom) epoch with
  | some w => pure w
  | none => .error .notFound

end MantraDex
