-- Root of the `MantraDex` library: model, proofs and the property theorems.
import MantraDex.Model.Num
