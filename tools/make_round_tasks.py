#!/usr/bin/env python3
"""Write the task files for one round of independently seeded changes: property text + requested flavour + one-line
summaries of every change already kept for that property (so that the next change is a different one).
usage: make_round_tasks.py <round-number> <instructions-template>   (worktrees /tmp/m<r>/Cxx, output /tmp/m<r>out/Cxx)"""
import json, sys, os, glob
r = int(sys.argv[1]); tmpl = sys.argv[2]
V = os.path.dirname(os.path.dirname(os.path.abspath(__file__)))
props = [json.loads(l) for l in open(f"{V}/properties.jsonl")]
FLAVOURS = [
 "The defect should come from a STATE-ORDERING slip (a value read before / after the update it should follow, a stale local copy saved back over a fresher record, a message built from state that a later line changes, load-modify-save on the wrong record).",
 "The defect should come from an ERROR-HANDLING slip (`?` turned into `.ok()` / `unwrap_or_default()` / `if let Ok(..)`, an error mapped to a default value, a `checked_` operation replaced by a `saturating_` one, a failed lookup treated as empty).",
 "The defect should come from a ROUNDING / INTEGER-ARITHMETIC slip (floor vs ceil, the order of multiplication and division, an intermediate that is narrowed or truncated, Decimal vs Uint arithmetic, a subtraction done on the wrong side of a division).",
 "The defect should come from a COMPARISON / BOUNDARY slip (< vs <=, an epoch or time compared one off, an inclusive bound treated as exclusive, an emptiness test on the wrong collection, `any` vs `all`).",
 "The defect should come from an OPTIMISATION (skipping a recomputation or a storage write when something 'has not changed', an early return for a presumed no-op, caching a value across a call that can change it, merging two loops).",
 "The defect should come from a VALIDATION GAP between two entry points that should enforce the same rule (instantiate vs update-config, create vs expand, direct call vs call on behalf / via another contract, query vs execute).",
]
FLAVOURS_9 = [
 "The defect should come from a change in the ORDER or COMBINATION OF CHECKS (a check moved behind a state change or behind the emission of a message, two conditions merged with || where && was meant or the reverse, a guard that now short-circuits past a later one).",
 "The defect should come from a MISUNDERSTOOD HELPER CONTRACT (a function that returns an Option / a Result / a sorted or paged list / an inclusive range / a value in other units, used under the wrong assumption about what it returns in a corner case).",
 "The defect should come from TIME or EPOCH arithmetic (an epoch off by one, the boundary instant itself, start vs end, expiry vs unlock, a duration added to the wrong base, block time equal to a boundary).",
 "The defect should come from ALIASING OF ROLES: the same account in two roles (sender = receiver, contract owner = fee collector, farm owner = position owner, the pool manager or farm manager itself as a user) or the same denom in two roles (reward denom = LP denom, fee denom = pool asset, farm fee denom = reward denom) handled wrongly.",
 "The defect should come from a GENERALISATION slip: code that stays right for 2 assets / one farm / one position / one hop but is wrong for 3-4 assets, several farms, several positions or several hops (index mix-up, first match instead of all, overwrite instead of accumulate).",
 "The defect should come from SUB-MESSAGE / REPLY / RESPONSE plumbing (reply ids and payloads, the order of emitted messages, a value carried in temporary storage between two steps, attributes or data another step relies on).",
]
if r >= 9: FLAVOURS = FLAVOURS_9
src = open(tmpl).read().replace("/tmp/m7", f"/tmp/m{r}")
os.makedirs(f"/tmp/m{r}", exist_ok=True)
open(f"/tmp/m{r}/INSTRUCTIONS.md", "w").write(src)
for i, p in enumerate(props):
    pid = p["id"]
    known = []
    for m in sorted(glob.glob(f"{V}/seeded/{pid}-*/meta.json")):
        try: known.append(json.load(open(m)).get("summary", "")[:330].replace("\n", " "))
        except Exception: pass
    fl = FLAVOURS[(i + r) % len(FLAVOURS)]
    with open(f"/tmp/m{r}/{pid}.task.md", "w") as f:
        f.write(f"# Task file for property {pid}\n\nWorktree: /tmp/m{r}/{pid}\nOutput directory: /tmp/m{r}out/{pid}\n\n")
        f.write(f"## Property {pid}: {p.get('title','')}\n\n{p.get('statement', p.get('description',''))}\n\n")
        f.write("## Requested flavour of the change\n" + fl + "\nIt must still need something specific to manifest (a particular input, boundary, sequence, option combination or failure point).\n")
        f.write("Use a code site and mechanism different from all the already-known changes below (there are many — read them; a change that a\nreviewer would call \"the same bug again\" is not useful).\n\n")
        f.write("## Already-known changes (do NOT repeat these or close variants)\n")
        for k in known: f.write(f"- {k}\n")
print("written", len(props))
