#!/usr/bin/env python3
"""dev helper: run a stream, pipe to the driver, show the first disagreements with section-level detail"""
import subprocess, sys, re
stream, seed, cases = sys.argv[1], sys.argv[2], sys.argv[3]
impl = subprocess.run(["harness/target/release/mdx-harness", stream, "--seed", seed, "--cases", cases], capture_output=True, text=True).stdout
model = subprocess.run(["lean/.lake/build/bin/mdxdrv"], input=impl, capture_output=True, text=True).stdout
il, ml = impl.splitlines(), model.splitlines()
print(len(il), len(ml))
bad = 0
case_bad = False
prev = ""
for a, b in zip(il, ml):
    if a.startswith("begin"):
        case_bad = False
    if a != b and not case_bad:
        case_bad = True
        bad += 1
        if bad <= int(sys.argv[4]) if len(sys.argv) > 4 else 3:
            print("PREV:", prev[:400])
            la, ra = a.split(" => ", 1); lb, rb = b.split(" => ", 1)
            print("LINE:", la[:300])
            if la.startswith("snap"):
                sa = re.findall(r"(\w+)\[(.*?)\](?= |$)", ra); sb = re.findall(r"(\w+)\[(.*?)\](?= |$)", rb)
                for (ka, va), (kb, vb) in zip(sa, sb):
                    if va != vb:
                        ia, ib = va.split(";"), vb.split(";")
                        print("  section", ka)
                        for x in ia:
                            if x not in ib: print("    impl :", x)
                        for x in ib:
                            if x not in ia: print("    model:", x)
            else:
                print("  impl :", ra[:300]); print("  model:", rb[:300])
    if not a.startswith("snap"):
        prev = a
print("cases with disagreement:", bad, "of", sum(1 for l in il if l.startswith("begin")))
