#!/usr/bin/env python3
"""Regenerates MANIFEST.json from tools/propcfg.py (claimed properties) — properties that are in
properties.jsonl but not (yet) in propcfg.PROPS are listed under not_applicable with a reason."""
import json, os, sys
ROOT = os.path.dirname(os.path.dirname(os.path.abspath(__file__)))
sys.path.insert(0, os.path.join(ROOT, "tools"))
import propcfg

ids = [json.loads(l)["id"] for l in open(os.path.join(ROOT, "properties.jsonl"))]
checks = []
for pid in ids:
    if pid not in propcfg.PROPS:
        continue
    c = propcfg.PROPS[pid]
    checks.append({
        "property_id": pid,
        "quick_cmd": f"bin/check {pid} --tier quick",
        "thorough_cmd": f"bin/check {pid} --tier thorough",
        "evidence_file": f"evidence/{pid}.json",
        "replay_cmd_template": f"bin/check {pid} --replay {{path}}",
        "engine": "lean4-proof+correspondence",
        "level_claimed": {
            "category": "proof",
            "text": c.get("level_text", "Lean 4 theorems about an executable model of the code (all inputs/histories, no bound), re-checked by "
                    "lake build on every run; the model is tied to /repo by constants regenerated from the source and by differential "
                    "execution against the real contracts; the property's decidable predicate is also evaluated on the implementation's "
                    "observed behaviour (monitors) to produce concrete failing inputs. ") + " Proved: " + c["what"],
            "design_ref": c.get("design_ref", "DESIGN.md §7 " + pid),
        },
        "level_note": c.get("level_note", "Trusted: Lean kernel; axioms propext/Classical.choice/Quot.sound only; the hand-written model's fidelity "
                            "(validated by the correspondence streams, which are testing, not proof); cosmwasm-std/cw-multi-test semantics as modelled."),
        "technique": c.get("technique", "machine-checked proof in Lean 4 (theorems over an executable model) + model/implementation correspondence check"),
    })
na = [{"property_id": pid, "reason": propcfg.NOT_YET.get(pid, "not claimed in this revision: model/theorems for it are not built yet (see DESIGN.md §12)")}
      for pid in ids if pid not in propcfg.PROPS]
m = {
    "version": 1,
    "setup_cmd": "bin/check --setup",
    "hooks": {
        "guard": "cargo feature verif-hooks (farm-manager, pool-manager); off by default",
        "enable": "harness/Cargo.toml depends on the /repo crates by path with features = [\"verif-hooks\"]",
        "baseline_off_cmd": "cd /repo && cargo test --workspace --no-fail-fast --offline",
        "source_commits": propcfg.HOOK_COMMITS,
        "add_only": True,
    },
    "engines": [{
        "name": "lean4-proof+correspondence", "path": "bin/check",
        "serves_properties": [c["property_id"] for c in checks],
        "kind_free_text": "Lean 4 model + theorems (lean/), Rust differential harness (harness/), constants extractor (tools/), orchestrated by bin/check",
    }],
    "checks": checks,
    "not_applicable": na,
    "notes": "Every check is `bin/check <id> --tier quick|thorough`; see DESIGN.md. known_findings.json lists recorded defects (known / fixed).",
}
json.dump(m, open(os.path.join(ROOT, "MANIFEST.json"), "w"), indent=1)
print("MANIFEST.json:", len(checks), "checks,", len(na), "not_applicable")
