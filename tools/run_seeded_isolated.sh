#!/bin/bash
# usage: tools/run_seeded_isolated.sh [id-prefix]
# Applies every seeded change in turn to a PRIVATE copy of /repo (and runs a private copy of /verif against it), so that
# /repo and /verif stay untouched and usable meanwhile.  Prints one line per change: the first verdict line of the quick
# check of the property named by the id prefix.
W=${SEEDRUN_DIR:-/tmp/seedrun}
rm -rf $W; mkdir -p $W
rsync -a --exclude target --exclude .git /repo/ $W/repo.orig/
rsync -a $W/repo.orig/ $W/repo/
rsync -a --exclude .git --exclude replays /verif/ $W/verif/
sed -i "s#/repo/contracts#$W/repo/contracts#" $W/verif/harness/Cargo.toml
export MDX_REPO=$W/repo
cd $W/verif
for d in /verif/seeded/${1:-}*/; do
  id=$(basename $d); p=${id%%-*}
  # restore by content WITHOUT preserving modification times: a restored file must look new to cargo, otherwise
  # the crate a previous change touched would not be rebuilt
  rsync -rlD --delete --checksum $W/repo.orig/contracts/ $W/repo/contracts/
  # source part of the patch only
  python3 - "$d/patch.diff" > $W/src.diff <<'PY'
import sys,re
txt=open(sys.argv[1]).read()
for part in re.split(r'(?m)^(?=diff --git )',txt):
    m=re.match(r'diff --git a/(\S+)',part)
    if m and '/tests/' not in m.group(1) and 'src/tests' not in m.group(1): sys.stdout.write(part)
PY
  if ! (cd $W/repo && patch -p1 -s < $W/src.diff); then echo "$id | patch does not apply"; continue; fi
  out=$(bin/check $p 2>&1 | grep "^VIOLATION\|^OK" | head -1)
  echo "$id | $out"
done
rsync -rlD --delete --checksum $W/repo.orig/contracts/ $W/repo/contracts/
echo "unchanged tree: $(bin/check C18 2>&1 | tail -1)"
