#!/bin/bash
# usage: tools/coverage.sh [cases-per-history-stream]   (development aid, not a registered check)
# Line coverage of /repo's contract sources under the correspondence streams: builds an instrumented copy of the
# harness with the nightly toolchain in a scratch directory, runs every stream once, prints llvm-cov's per-file
# report restricted to /repo.  What is NOT covered is code the model is not tied to.
set -e
N=${1:-120}
W=$(mktemp -d /tmp/mdxcov.XXXXXX)
rsync -a --exclude target /verif/harness/ $W/
cd $W
RUSTFLAGS="-C instrument-coverage" CARGO_NET_OFFLINE=true cargo +nightly build --release --offline 2>&1 | tail -1
mkdir prof
for s in epoch swapmath mintmath farmmath pm_hist fm_hist faults auth twin; do
  case $s in epoch|swapmath|mintmath|farmmath) n=6000;; auth) n=1;; *) n=$N;; esac
  LLVM_PROFILE_FILE=prof/$s.profraw ./target/release/mdx-harness $s --seed 7 --cases $n --out $W/$s.impl > /dev/null 2>&1 || true
done
T=$(dirname $(rustup +nightly which rustc))/../lib/rustlib/x86_64-unknown-linux-gnu/bin
$T/llvm-profdata merge -sparse prof/*.profraw -o prof/all.profdata
$T/llvm-cov report ./target/release/mdx-harness -instr-profile=prof/all.profdata --ignore-filename-regex='(\.cargo|rustc|/verif/|/tmp/)' 2>&1 \
  | awk '{printf "%-62s lines=%s missed=%s cover=%s\n", $1, $8, $9, $10}' | grep -v "^-"
echo "(uncovered lines of one file: $T/llvm-cov show $W/target/release/mdx-harness -instr-profile=$W/prof/all.profdata /repo/contracts/<file> | grep -E '^\s+[0-9]+\|\s+0\|')"
# build scripts of the instrumented build drop .profraw files next to the crates they build
find /repo -name "*.profraw" -delete
echo "scratch directory: $W (remove when done)"
