#!/bin/bash
# usage: tools/try_mutant.sh <patch.diff> <prop> [<prop>...]   — applies the source part of the patch to /repo,
# runs the quick checks of the given properties, and restores /repo.
set -u
PATCH=$1; shift
cd /repo || exit 2
if ! git diff --quiet; then echo "/repo has uncommitted changes"; exit 2; fi
# keep only hunks of non-test source files
python3 - "$PATCH" > /tmp/_mut_src.diff <<'PY'
import sys,re
txt=open(sys.argv[1]).read()
parts=re.split(r'(?m)^(?=diff --git )',txt)
for p in parts:
    m=re.match(r'diff --git a/(\S+)',p)
    if not m: continue
    f=m.group(1)
    if '/tests/' in f or f.endswith('tests.rs') or '/tests.rs' in f: continue
    sys.stdout.write(p)
PY
git apply /tmp/_mut_src.diff || { echo "patch does not apply"; exit 2; }
git diff --stat | tail -3
cd /verif
for p in "$@"; do
  out=$(bin/check $p 2>&1 | grep -v "^KNOWN-FINDING" | tail -3)
  echo "[$p] $out"
done
git -C /repo checkout -- .
git -C /repo status --short | head -3
