#!/bin/bash
# usage: tools/try_mutant.sh <patch.diff> <prop> [<prop>...]   — applies the source part of the patch to /repo,
# runs the quick checks of the given properties, and restores /repo.
set -u
PATCH=$(realpath "$1"); shift
cd /repo || exit 2
if ! git diff --quiet; then echo "/repo has uncommitted changes"; exit 2; fi
# keep only hunks of non-test source files
python3 - "$PATCH" > /tmp/_mut_src.diff <<'PY'
import sys,re
txt=open(sys.argv[1]).read()
parts=re.split(r'(?m)^(?=diff --git )',txt)
for p in parts:
    m=re.match(r'diff --git a/(\S+)',p)
    if not m: continue
    f=m.group(1)
    if '/tests/' in f or f.endswith('tests.rs') or '/tests.rs' in f: continue
    sys.stdout.write(p)
PY
git apply /tmp/_mut_src.diff || { echo "patch does not apply"; exit 2; }
git diff --stat | tail -3
cd /verif
# evidence/ and replays/ must only ever hold results for the unchanged tree: save and restore them
rm -rf /tmp/_mut_keep && mkdir -p /tmp/_mut_keep && cp -a evidence replays /tmp/_mut_keep/ 2>/dev/null
for p in "$@"; do
  out=$(bin/check $p 2>&1 | grep -v "^KNOWN-FINDING" | tail -3)
  echo "[$p] $out"
done
git -C /repo checkout -- .
mkdir -p /tmp/_mut_last && rm -rf /tmp/_mut_last/* && cp -a replays /tmp/_mut_last/ 2>/dev/null   # the mutant's replays, for inspection
rm -rf evidence replays && cp -a /tmp/_mut_keep/evidence /tmp/_mut_keep/replays . 2>/dev/null
git -C /repo status --short | head -3
