"""Per-property configuration of bin/check: the Lean module holding the property theorems, the
theorem names that are the proof obligations, the correspondence streams (with quick / thorough
case counts) and a short description used in the evidence file."""

ALLOWED_AXIOMS = {"propext", "Classical.choice", "Quot.sound"}

TRUSTED_BASE_COMMON = [
    "Lean 4.33.0 kernel (thorough tier: leanchecker re-check of the property module)",
    "axioms allowed in property theorems: propext, Classical.choice, Quot.sound (audited by #print axioms on every run)",
    "hand-written Lean model of the Rust code (lean/MantraDex/Model/*), tied to /repo by (a) constants regenerated from the "
    "working tree on every run (tools/extract_constants.py) and (b) differential execution of model vs. real code (harness/)",
    "cosmwasm-std 2.2.2 numerics, cw-multi-test 2.4.0 runtime/bank, StargateMock token factory, cw-ownable: modelled, exercised by the correspondence streams, not verified",
]

# stream -> (quick cases, thorough cases)
PROPS = {
    "C18": {
        "module": "MantraDex.Properties.C18",
        "ns": "MantraDex.C18",
        "theorems": [
            "query_epoch_ok_iff", "epoch_start_eq", "current_epoch_ok_iff", "before_genesis_fails",
            "epoch_id_monotone", "epoch_id_steps_by_one", "now_in_epoch_interval", "next_epoch_start",
            "instantiate_enforces", "update_enforces", "day_is_86400",
        ],
        "streams": {"epoch": (4000, 400000)},
        "what": "epoch-manager: current epoch = floor((now-genesis)/duration), start = genesis+id*duration, "
                "monotone, +1 per duration, now in [start(id), start(id+1)), duration>=1 day and genesis>=now enforced; "
                "u64/Timestamp overflow is an error, never a wrapped value",
    },
    "C09": {
        "module": "MantraDex.Properties.C09",
        "ns": "MantraDex.C09",
        "theorems": [
            "cap_is_90pct", "penalty_le_cap", "penalty_formula", "penalty_antitone_in_time",
            "penalty_zero_when_unlocked", "penalty_open_full_duration", "penaltySplit_ok",
            "penalty_le_90pct", "split_accounted", "split_all_to_collector_when_no_active_farm",
            "split_all_to_collector_when_share_rounds_to_zero", "owner_share_is_half",
        ],
        "streams": {"farmmath": (6000, 300000)},
        "what": "emergency penalty rate = min(90%, base (x) remaining/duration (x) weight/amount) with 18-digit floors; <= 90% (from the "
                "generated MAX_PENALTY_CAP); antitone in time after closing; zero once unlocked; fee = floor(amount*rate) < amount and <= 90%; "
                "owner payout + fee collector + n*per-owner share <= recorded amount, = amount - dust with dust < n; all to the fee collector "
                "when there is no active farm or the per-owner share rounds to zero",
    },
    "C10": {
        "module": "MantraDex.Properties.C10",
        "ns": "MantraDex.C10",
        "theorems": [
            "weightMultiplier_eq", "mulOf_mono", "mulOf_year_le_16", "calculateWeight_ok", "weight_ge_amount",
            "weight_le_16x", "weight_mono_amount", "weight_mono_duration", "weight_superadditive", "curve_anchor_points",
        ],
        "streams": {"farmmath": (6000, 300000)},
        "what": "weight curve: weight >= amount, <= 16*amount (multiplier at one year evaluated from the generated coefficients), "
                "monotone in amount and duration, super-additive in amount (source of F-07)",
    },
}

HOOK_COMMITS = ["4dbfdab", "9c77502"]
NOT_YET = {}
