"""Per-property configuration of bin/check: the Lean module holding the property theorems, the
theorem names that are the proof obligations, the correspondence streams (with quick / thorough
case counts) and a short description used in the evidence file."""

ALLOWED_AXIOMS = {"propext", "Classical.choice", "Quot.sound"}

TRUSTED_BASE_COMMON = [
    "Lean 4.33.0 kernel (thorough tier: leanchecker re-check of the property module)",
    "axioms allowed in property theorems: propext, Classical.choice, Quot.sound (audited by #print axioms on every run)",
    "hand-written Lean model of the Rust code (lean/MantraDex/Model/*), tied to /repo by (a) constants regenerated from the "
    "working tree on every run (tools/extract_constants.py) and (b) differential execution of model vs. real code (harness/)",
    "cosmwasm-std 2.2.2 numerics, cw-multi-test 2.4.0 runtime/bank, StargateMock token factory, cw-ownable: modelled, exercised by the correspondence streams, not verified",
]

# stream -> (quick cases, thorough cases)
PROPS = {
    "C18": {
        "module": "MantraDex.Properties.C18",
        "ns": "MantraDex.C18",
        "theorems": [
            "query_epoch_ok_iff", "epoch_start_eq", "current_epoch_ok_iff", "before_genesis_fails",
            "epoch_id_monotone", "epoch_id_steps_by_one", "now_in_epoch_interval", "next_epoch_start",
            "instantiate_enforces", "update_enforces", "day_is_86400",
        ],
        "streams": {"epoch": (4000, 400000)},
        "what": "epoch-manager: current epoch = floor((now-genesis)/duration), start = genesis+id*duration, "
                "monotone, +1 per duration, now in [start(id), start(id+1)), duration>=1 day and genesis>=now enforced; "
                "u64/Timestamp overflow is an error, never a wrapped value",
    },
    "C09": {
        "module": "MantraDex.Properties.C09",
        "ns": "MantraDex.C09",
        "theorems": [
            "cap_is_90pct", "penalty_le_cap", "penalty_formula", "penalty_antitone_in_time",
            "penalty_zero_when_unlocked", "penalty_open_full_duration", "penaltySplit_ok",
            "penalty_le_90pct", "split_accounted", "split_all_to_collector_when_no_active_farm",
            "split_all_to_collector_when_share_rounds_to_zero", "owner_share_is_half",
            "MantraDex.C09Sys.emergency_withdraw_tx_effect", "MantraDex.C09Sys.uniqueOwners_nodup",
            "MantraDex.C02Live.emergency_withdraw_live_partial", "MantraDex.MonSoundB.monWithdrawPos_emergency_sound", "MantraDex.NonVac2.monWithdrawPos_emergency_sound_applies", "MantraDex.MonSoundE.monPenaltyTotal_sound"],
        "extra_modules": ["MantraDex.Properties.C09Sys", "MantraDex.Properties.C02Live", "MantraDex.Properties.MonSoundB", "MantraDex.Properties.NonVacuity2", "MantraDex.Properties.MonSoundE"],
        "streams": {"farmmath": (6000, 300000), "fm_hist": (120, 3000), "faults": (45, 1500)},
        "what": "THROUGH THE RUNTIME (C09Sys.emergency_withdraw_tx_effect): an accepted emergency withdrawal is signed by the position's owner, deletes the "
                "position, leaves farms and the pool manager untouched, and moves EXACTLY: amount - penalty to the owner, the same share to every distinct owner of "
                "a currently active farm on that LP token (active = started and not expired, as the handler selects them), the rest of the penalty to the fee "
                "collector, all out of the farm manager, which pays at most the recorded amount; nobody else's balance changes (one additive Int formula covering "
                "every aliasing of the parties). Handler level: emergency penalty rate = min(90%, base (x) remaining/duration (x) weight/amount) with 18-digit floors; <= 90% (from the "
                "generated MAX_PENALTY_CAP); antitone in time after closing; zero once unlocked; fee = floor(amount*rate) < amount and <= 90%; "
                "owner payout + fee collector + n*per-owner share <= recorded amount, = amount - dust with dust < n; all to the fee collector "
                "when there is no active farm or the per-owner share rounds to zero",
    },
    "C10": {
        "module": "MantraDex.Properties.C10",
        "ns": "MantraDex.C10",
        "theorems": [
            "weightMultiplier_eq", "mulOf_mono", "mulOf_year_le_16", "calculateWeight_ok", "weight_ge_amount",
            "weight_le_16x", "weight_mono_amount", "weight_mono_duration", "weight_superadditive", "curve_anchor_points",
            "MantraDex.C10H.latest_after_set", "MantraDex.C10H.update_weights_same_delta", "MantraDex.C10H.update_weights_covered_partial",
            "MantraDex.C10H.update_weights_covered_counterexample", "MantraDex.C10H.reconcile_clears",
            "MantraDex.C10Sys.winv_step", "MantraDex.C10Sys.winv_init", "MantraDex.C10Sys.weights_covered_reachable",
            "MantraDex.NonVacuity.w0_wInv", "MantraDex.NonVacuity.hist_stable", "MantraDex.NonVacuity.instance_weights",
            "MantraDex.C10Eq.exact_step", "MantraDex.C10Eq.exact_init", "MantraDex.C10Eq.total_eq_sum_of_users", "MantraDex.C10Eq.exact_reachable",
            "MantraDex.C10Eq.whole_history_exact", "MantraDex.C10Eq.pieces_not_exact", "MantraDex.C10Eq.partial_not_exact", "MantraDex.MintInv.mint_wInv", "MantraDex.MintInv.mint_wcore", "MantraDex.MintInv.mint_exact", "MantraDex.MonSoundF.monWeightsCover_sound", "MantraDex.MonSoundG.monTopupWeight_sound", "MantraDex.MonSoundG.monExitWeight_sound", "MantraDex.MonSoundG.monExitWeight_sound_of_noExp", "MantraDex.MonSoundG.monExitWeight_quiet_on_clamped_owner", "MantraDex.MonSoundG.exit_weights", "MantraDex.MonSoundG.monExitWeight_fires_expired_open"],
        "extra_modules": ["MantraDex.Properties.C10H", "MantraDex.Properties.C10Sys", "MantraDex.Properties.NonVacuity", "MantraDex.Properties.C10Eq", "MantraDex.Properties.MintInv", "MantraDex.Properties.MonSoundF", "MantraDex.Properties.MonSoundG"],
        "streams": {"farmmath": (6000, 300000), "fm_hist": (120, 3000)},
        "what": "weight curve: weight >= amount, <= 16*amount (multiplier at one year evaluated from the generated coefficients), "
                "monotone in amount and duration, super-additive in amount (source of F-07); update_weights moves the user's and the "
                "contract's latest weight by the same delta at epoch+1 (close: min(w, user weight), after the F-07 fix), so the total keeps covering "
                "any set of users that contains every closer (the version without that side condition is refuted by a proved counterexample); "
                "a user without open positions has no weight history / cursor. THROUGH THE RUNTIME (C10Sys): in every state reachable by account-signed "
                "transactions (nested pool-manager locks, replies, rollbacks, injected faults), for every LP token, EVERY epoch and any set of distinct users, the "
                "total's weight in effect (Spec.weightAt of the farm manager's own history) is at least the sum of the users' weights in effect, and a user without an "
                "open position in an LP token has an empty weight history for it (winv_step, winv_init, weights_covered_reachable)",
        "assumptions": ["C10Sys holds while the epoch configuration (epoch manager config and the farm manager's pointer to it) is unchanged, block time stays within u64 "
                        "nanoseconds and the farm manager's pool_manager pointer is the pool manager (hypotheses EpochStable / hstable): re-basing epochs is an owner action "
                        "after which epoch ids restart"],
    },

    "C01": {
        "module": "MantraDex.Properties.C01", "ns": "MantraDex.C01",
        "theorems": ["swap_conserves", "route_conserves", "withdraw_conserves", "provide_multi_conserves", "single_first_leg_conserves",
                     "create_pool_conserves_partial", "config_conserves_partial", "bank_send_effect",
                     "MantraDex.C01Sys.pm_inv_step_partial", "MantraDex.C01Sys.pm_custody_reachable_partial", "MantraDex.C01Sys.pm_inv_init",
                     "MantraDex.C01Sys.pm_inv_step", "MantraDex.C01Sys.pm_custody_reachable",
                     "MantraDex.C02Sys.lp_inv_step", "MantraDex.C02Sys.lp_inv_reachable", "MantraDex.C02Sys.pm_lp_balance_step_partial",
                     "MantraDex.C01All.all_inv_step", "MantraDex.C01All.all_inv_reachable", "MantraDex.C01All.pm_custody_all_reachable", "MantraDex.C01All.all_inv_init",
                     "MantraDex.NonVacuity.w0_allInv", "MantraDex.NonVacuity.hist_effective", "MantraDex.NonVacuity.instance_custody",
                     "MantraDex.C01Exact.excess_tx_exact", "MantraDex.C01Exact.excess_history_exact",
                     "MantraDex.C01Exact.Cx.pmCollector_needed", "MantraDex.C01Exact.Cx.fmCollector_needed", "MantraDex.C01Exact.Cx.farmOwners_needed",
                     "MantraDex.C01Exact.Cx.swapReceiver_needed", "MantraDex.C01Exact.Cx.routeReceiver_needed", "MantraDex.C01Exact.Cx.oddUnit_instance", "MantraDex.MonSound.monPmExcess_sound", "MantraDex.MonSoundC.monPmCustody_sound", "MantraDex.MonSoundC.monPmCustody_locked_sound", "MantraDex.NonVac2.monPmExcess_sound_applies", "MantraDex.NonVac2.monPmExcess_sound_applies_gift", "MantraDex.NonVac2.monPmExcess_sound_applies_odd", "MantraDex.MintInv.mint_allInv_partial", "MantraDex.MintInv.mint_pmInv", "MantraDex.MintInv.mint_nonfactory_breaks_allInv", "MantraDex.MintInv.mintWorld_effect"],
        "extra_modules": ["MantraDex.Properties.C01Sys", "MantraDex.Properties.C02Sys", "MantraDex.Properties.C01All", "MantraDex.Properties.NonVacuity",
                          "MantraDex.Properties.C01Exact", "MantraDex.Properties.MonSound", "MantraDex.Properties.MonSoundC", "MantraDex.Properties.NonVacuity2", "MantraDex.Properties.MintInv"],
        "streams": {"pm_hist": (160, 4000), "faults": (45, 1500)},
        "what": "handler-level conservation law of the pool manager for every non-LP token: reserves' + outflow(messages) = reserves + inflow(funds) "
                "for swap, routed swap (any length), withdraw, multi-asset deposit, pool creation (keeps nothing), config/ownership; the single-asset "
                "first leg leaves reserves untouched and forwards exactly floor(a/2) to a self-call; a bank send moves exactly the listed coins. "
                "Together with the bank semantics this makes balance - reserves invariant under every pool operation. LIFTED THROUGH THE RUNTIME "
                "(C01Sys): 'PM bank balance >= sum of reserves for every non-factory denom' + well-formedness + empty single-side buffer is preserved by "
                "every whole transaction (nested farm-manager calls, reply modes, rollback, injected faults) INCLUDING the single-asset deposit "
                "(first leg, self-swap, reply with exact balance checks, second leg; simulation = swap closes the accounting) and holds in every "
                "reachable state (pm_inv_step, pm_custody_reachable, pm_inv_init; the _partial versions are the intermediate result). LP CLAUSE (C02Sys): the pool manager "
                "holds the locked minimum of every funded pool in every reachable state (lp_inv_step / lp_inv_reachable), and a contract call changes its balance of a pool's LP token "
                "only by minting that minimum at the first deposit (pm_lp_balance_step_partial: unless the pool manager is itself named as LP receiver, fee collector or farm owner - "
                "three proved-necessary exclusions with evaluated counterexamples). EXACT EXCESS (C01Exact): across an accepted transaction of ANY kind by an account the excess balance - reserves of every non-factory denom moves by exactly the coins of a plain transfer to the pool manager plus one unit of the deposited denom for a single-asset deposit of an odd amount, and by nothing else (excess_tx_exact; along histories: excess_history_exact) - provided no payment is pointed at the pool manager itself (swap / route receiver, the two fee collectors, farm owner: each shown necessary by a kernel-evaluated counterexample). FULL STRENGTH, EVERY TOKEN (C01All): in every state reachable by account-signed transactions, for EVERY "
                "denom - LP tokens of the pool manager, pools listing another (or their own) pool's LP token as an asset, fee denoms that are LP tokens - recorded reserves + the locked minimum "
                "liquidity of the funded pool whose LP token it is <= the pool manager's balance (all_inv_step, pm_custody_all_reachable, all_inv_init); no restriction on the pools' assets",
        "assumptions": ["the lift through the runtime to whole transactions is proved (C01Sys) for every transaction kind, for non-factory denoms (LP tokens "
                        "are factory denoms), for the runtime/bank MODEL (trusted, exercised by the streams), account-signed transactions and a pool creation "
                        "fee <= u128::MAX/2; on the implementation it is validated by the custody + excess monitors on every step of the history and fault streams",
                        "create_pool law needs creation fee + token-factory fee not to overflow u128 (proved counterexample otherwise); config law needs unique pool ids"],
    },
    "C14": {
        "module": "MantraDex.Properties.C14", "ns": "MantraDex.C14",
        "theorems": ["single_refused_on_empty_or_larger_pool", "single_cannot_lock_for_other", "multi_cannot_lock_for_other",
                     "lock_into_position_requires_ownership", "first_leg_shape", "reply_shape", "buffer_only_set_by_first_leg",
                     "MantraDex.C14Eq.single_asset_equals_two_step_partial",
                     "MantraDex.C15Sys.positions_change_only_by_owner_tx_partial", "MantraDex.C15Sys.new_positions_belong_to_signer_partial",
                     "MantraDex.C14Lock.single_asset_locked_equals_two_step_partial", "MantraDex.C14Lock.single_asset_locked_equals_two_step_fields",
                     "MantraDex.C14Lock.single_asset_locks_for_sender", "MantraDex.MonSoundE.monSingleShape_sound", "MantraDex.C14Conv.two_step_accepted_implies_single_accepted", "MantraDex.C14Conv.Cx.without_hfcPM_false", "MantraDex.C14Conv.Cx.without_hfcu_false", "MantraDex.C14Conv.Cx.applies"],
        "extra_modules": ["MantraDex.Properties.C14Eq", "MantraDex.Properties.C15Sys", "MantraDex.Properties.C14Lock", "MantraDex.Properties.MonSoundE", "MantraDex.Properties.C14Conv"],
        "streams": {"pm_hist": (160, 4000), "twin": (120, 3000), "faults": (45, 1500), "fm_hist": (120, 3000)},
        "what": "single-asset deposits are refused on empty / larger pools; neither path can lock LP for someone other than the sender and an existing "
                "position must belong to the receiver; first leg = simulate, buffer (expected balances, options), swap exactly floor(a/2) via a "
                "reply-on-success self-call; reply = both balances must match, buffer cleared, deposit of half + simulated proceeds with the recorded "
                "options as a plain self-call; no other handler sets the buffer. MAIN CLAUSE THROUGH THE RUNTIME (C14Eq): an accepted unlocked "
                "single-asset deposit of c by u ends in the same world as u swapping floor(c/2) and then depositing that half plus the proceeds - same "
                "pool-manager state (reserves, fees, counters), same farm manager, same supplies, same balances of every account and denom - except "
                "that the odd unit c mod 2 sits in the pool manager's balance instead of the depositor's (single_asset_equals_two_step_partial). LOCKED VARIANTS (C14Lock): the same equality "
                "for deposits that lock the LP in the farm manager (with or without an explicit position identifier, into a new or into the sender's own position): same pool manager, SAME "
                "farm-manager state (wA.fm = wB.fm: positions, weights, counters), same supplies and balances up to the odd unit (single_asset_locked_equals_two_step_partial); every position "
                "such a deposit creates or changes belongs to the sender (single_asset_locks_for_sender)",
        "assumptions": ["C14Eq / C14Lock are proved from well-formed worlds (empty buffer between transactions, valid sender address, supply covering the "
                        "deposit: three proved-necessary hypotheses, counterexamples in the files); the implementation-level equality is "
                        "validated by the twin-deployment stream (mon_twin_c14); all-or-nothing is C20"],
    },

    "C15": {
        "module": "MantraDex.Properties.C15", "ns": "MantraDex.C15",
        "theorems": ["ownership_moves_only_by_accept_or_renounce", "transfer_and_renounce_require_owner", "renounced_is_final", "renounce_result",
                     "pm_update_config_requires_owner", "pm_privileged_nonpayable", "pm_config_changes_only_by_privileged",
                     "fm_update_config_requires_owner", "fm_privileged_nonpayable", "expand_farm_requires_farm_owner",
                     "close_farm_requires_farm_or_contract_owner", "close_position_requires_owner", "withdraw_position_requires_owner",
                     "expand_position_requires_owner_or_pm", "create_for_other_requires_pm", "em_privileged_requires_owner_and_no_funds",
                     "fc_only_ownership_no_funds",
                     "MantraDex.C15Sys.pm_privileged_frame", "MantraDex.C15Sys.fm_privileged_frame", "MantraDex.C15Sys.em_privileged_frame",
                     "MantraDex.C15Sys.fc_privileged_frame", "MantraDex.C15Sys.positions_change_only_by_owner_tx_partial",
                     "MantraDex.C15Sys.new_positions_belong_to_signer_partial", "MantraDex.C15Sys.farms_change_only_by_authorised_tx",
                     "MantraDex.C15Sys.second_leg_receiver_defaults_to_pm"],
        "extra_modules": ["MantraDex.Properties.C15Sys"],
        "streams": {"auth": (1, 1), "inst": (1500, 60000), "pm_hist": (80, 2000), "fm_hist": (80, 2000)},
        # C15's last clause (position management by the owner, the pool manager the only delegate) is decided by the C08 / C14 position monitors too
        "also_tags": ["C08-foreign-change", "C08-created-for-other", "C14-locks-for-other", "C08-unknown-identifier"],
        "what": "ownership moves only when the pending owner accepts before expiry or the owner renounces; transfer/renounce need the owner; a renounced "
                "contract rejects every ownership action; on all four contracts config/ownership messages need the owner (resp. pending owner) and no "
                "funds, non-privileged messages never change config or ownership; farm expansion needs the farm owner, farm closing the farm owner or "
                "the contract owner; closing/withdrawing a position needs its owner, expanding the owner or the pool manager, creating for someone else "
                "the pool manager. The auth stream enumerates the complete matrix ownership state x contract x variant x sender role x funds on the "
                "implementation (exhaustive: 1512 combinations, incl. a proposal withdrawn or replaced by the owner). THROUGH THE RUNTIME (C15Sys): whatever a transaction contains (nested calls, replies, rollbacks, faults), "
                "the configuration, ownership and per-pool switches of the pool manager / the configuration and ownership of the farm manager / the epoch manager's state / the fee "
                "collector's ownership change only if the transaction IS a privileged message sent directly to that contract with no funds by its owner (or, for accept, the pending "
                "owner); a position is exactly as it was after any transaction not signed by its owner and every new position belongs to the signer (the pool manager acts only for the "
                "signer's own deposit; _partial: the signer's address passes addr_validate, as every chain signer's does - without it a kernel-checked counterexample exists); a farm "
                "changes only by its owner's ExpandFarm, an authorised CloseFarm, claims (claimed grows) or auto-close after expiry",
    },
    "C16": {
        "module": "MantraDex.Properties.C16", "ns": "MantraDex.C16",
        "theorems": ["createPool_shape", "createPool_funds_exact", "createPool_messages", "static_fields_immutable_partial",
                     "static_fields_immutable_counterexample", "static_fields_immutable_of_nodup", "reply_keeps_pools", "ids_unique_preserved",
                     "aligned_preserved",
                     "MantraDex.C16Sys.pools_static_step", "MantraDex.C16Sys.pools_static_reachable", "MantraDex.C16Sys.lp_denoms_unique_step",
                     "MantraDex.C16Tx.create_pool_tx_effect_partial", "MantraDex.PoolTx.Cx.create_pool_dup_tf", "MantraDex.PoolTx.Cx.create_pool_overflow"],
        "extra_modules": ["MantraDex.Properties.C16Sys", "MantraDex.Properties.C16Tx"],
        "streams": {"pm_hist": (160, 4000)},
        "what": "an accepted CreatePool has 2 (constant product) / 2-4 distinct assets (stableswap, amp != 0), matching decimals, valid fees (each < 100%, "
                "total <= 20%), a well-formed fresh identifier (o.<given> / p.<counter+1>), attached exactly the creation + token-factory fees, and "
                "emits exactly [send creation fee to collector]? ++ [create LP denom]; every later message keeps every pool and its static fields "
                "(given unique ids, which every message preserves; without that a proved counterexample exists), keeps identifiers unique and keeps "
                "reserves aligned with asset_denoms (what F-08 broke). LIFTED THROUGH THE RUNTIME (C16Sys): across every whole transaction of any sender "
                "(nested calls, replies, rollback, faults) and hence every history, no pool is removed, static fields never change, identifiers and LP denoms "
                "stay unique (pools_static_step, pools_static_reachable, lp_denoms_unique_step). WHOLE CreatePool TRANSACTION (C16Tx.create_pool_tx_effect_partial): exact bank and supply effect - the "
                "creator pays exactly creation fee + token-factory fees (= the attached funds), the creation fee arrives at the fee collector, the token-factory fee is destroyed, the pool manager "
                "keeps nothing, nobody else moves; the new pool has the requested fields, a fresh identifier, zero reserves, everything enabled (under the reachable-state facts: supply covers "
                "balances, token-factory fee denoms distinct, fee sum does not overflow - each shown necessary by a kernel-checked counterexample)",
    },

    "C17": {
        "module": "MantraDex.Properties.C17", "ns": "MantraDex.C17",
        "theorems": ["swap_disabled_direct", "performSwap_status", "route_requires_enabled", "deposit_disabled", "withdraw_disabled",
                     "single_asset_blocked_by_swap_switch", "toggle_only_named_pool", "reenable_restores", "new_pool_all_enabled",
                     "MantraDex.C17NI.more_enabled_simulates", "MantraDex.C17NI.less_enabled_refuses_or_same", "MantraDex.C17NI.reply_simulates",
                     "MantraDex.C17NI.simulation_ignores_switches",
                     "MantraDex.C17Tx.runTx_sim", "MantraDex.C17Tx.tx_more_enabled_simulates", "MantraDex.C17Tx.tx_less_enabled_same_or_rejected",
                     "MantraDex.C17Tx.tx_rejected_only_by_switch", "MantraDex.C17Tx.history_simulates",
                     "MantraDex.C17Sys.lp_supply_increase_names_pool", "MantraDex.C17Sys.swaps_disabled_reserves_frozen",
                     "MantraDex.C17Sys.swaps_disabled_reserves_frozen_of_ids", "MantraDex.C17Sys.deposits_disabled_no_mint",
                     "MantraDex.C17Sys.withdrawals_disabled_no_burn", "MantraDex.C17Sys.toggle_tx_only_named_pool",
                     "MantraDex.C17Sys.created_pool_enabled", "MantraDex.NonVac2.tx_more_enabled_simulates_applies", "MantraDex.NonVac2.runTx_sim_applies", "MantraDex.NonVac2.tx_rejected_only_by_switch_applies"],
        "extra_modules": ["MantraDex.Properties.C17NI", "MantraDex.Properties.C17Sys", "MantraDex.Properties.C17Tx", "MantraDex.Properties.NonVacuity2"],
        "streams": {"pm_hist": (160, 4000), "twin": (120, 3000)},
        "what": "swaps disabled: direct swap rejected, any route through the pool rejected as a whole, a single-asset deposit's whole transaction "
                "rejected (through the runtime: its inner swap is a reply-on-success sub-message); deposits disabled: every deposit shape rejected; "
                "withdrawals disabled: rejected; swaps never change any switch; a toggle touches only the named pool and only its switches; "
                "re-enabling restores the pool exactly; new pools start fully enabled. NON-INTERFERENCE (C17NI): two states differing only in pool switches "
                "give the same response and related result states on every message, except that the less enabled one may refuse with `disabled` "
                "(more_enabled_simulates, less_enabled_refuses_or_same, reply_simulates, simulation_ignores_switches). WHOLE TRANSACTIONS (C17Sys; nested calls, replies, "
                "rollbacks, faults): with swaps disabled on a pool, whatever anybody sends, its reserves change only through a multi-asset deposit into it or a withdrawal from it "
                "(direct swaps, routes of any shape, single-asset deposits are all refused as a whole); with deposits disabled the supply of its LP token never grows, with withdrawals "
                "disabled it never shrinks; a toggling transaction leaves every other pool exactly as it was; a pool created by a transaction starts fully enabled with zero reserves; a "
                "transaction that increases the supply of a pool's LP token is a ProvideLiquidity naming that pool. NON-INTERFERENCE OF WHOLE TRANSACTIONS AND HISTORIES (C17Tx): two WORLDS that "
                "differ only in pool switches, the second at least as enabled as the first: every transaction the first accepts (any nesting, replies, rollbacks, any injected bank fault) the second "
                "accepts too and the results are again equal up to switches - same balances, farm manager, reserves, LP supplies; what the second accepts the first either accepts with the same result or "
                "rejects as a whole, and then only with `disabled`; along any history the less enabled world accepts, the two worlds stay equal up to switches (runTx_sim, tx_more_enabled_simulates, "
                "tx_less_enabled_same_or_rejected, tx_rejected_only_by_switch, history_simulates; key lemma: no handler ever emits a reply-on-error sub-message that is a contract call)",
        "assumptions": ["on the implementation the same statement is sampled by the twin-deployment stream (mon_twin_c17)"],
    },
    "C20": {
        "module": "MantraDex.Properties.C20", "ns": "MantraDex.C20",
        "theorems": ["step_error_restores", "failing_submsg_aborts", "pm_execute_reply_modes", "pm_reply_shape", "closeFarms_reply_modes",
                     "fm_execute_reply_modes", "fm_reply_no_effect", "failed_refund_tolerated",
                     "MantraDex.C20Tx.create_farm_refund_failure_accepted", "MantraDex.C20Tx.create_farm_refund_failure_tolerated_partial",
                     "MantraDex.C20Tx.create_farm_refund_failure_tolerated_counterexample", "MantraDex.C20Tx.close_farm_refund_failure_tolerated"],
        "extra_modules": ["MantraDex.Properties.C20Tx"],
        "streams": {"faults": (60, 2000), "pm_hist": (80, 2000), "fm_hist": (80, 2000)},
        "what": "contracts' part: every sub-message any pool-manager / farm-manager handler can emit is reply-never, except the single-asset deposit's "
                "inner swap (success, id 1) and close-farm refunds (error, bank send only); the farm manager's reply changes nothing, the pool "
                "manager's reply only continues the deposit; hence in the runtime a failing sub-message aborts its parent (failing_submsg_aborts) "
                "unless it is a close-farm refund, whose failure is tolerated with everything else as in the fault-free run (failed_refund_tolerated). WHOLE TRANSACTIONS (C20Tx): a CreateFarm that "
                "auto-closes expired farms is STILL accepted when an injected failure hits one of their refunds (create_farm_refund_failure_accepted), and its result differs from the fault-free one by "
                "at most that single refund, whose tokens stay in the farm manager - no other farm, position or balance is affected (create_farm_refund_failure_tolerated_partial; for a sender other than "
                "the farm manager itself, kernel-checked counterexample otherwise); a manual CloseFarm is accepted under EVERY fault position and the farm is gone (close_farm_refund_failure_tolerated)",
        "assumptions": ["the CosmWasm runtime semantics (rollback scopes, reply modes) are modelled after cw-multi-test/wasmd and trusted; "
                        "validated by the fault-enumeration stream: every operation re-run with the k-th bank call failing, snapshot equality after each rejection"],
    },

    "C02": {
        "module": "MantraDex.Properties.C02", "ns": "MantraDex.C02",
        "theorems": ["cp_mint_formula", "cp_mint_le_share", "cp_value_per_lp_mono", "cp_first_mint", "withdraw_bounds", "withdraw_refunds_are_floor",
                     "withdraw_value_per_lp_mono", "withdraw_redeemable", "lp_only_minted_by_deposit_burned_by_withdraw", "ss_later_mint_shape",
                     "MantraDex.C02Sys.lp_inv_step", "MantraDex.C02Sys.lp_inv_init_partial", "MantraDex.C02Sys.lp_inv_reachable",
                     "MantraDex.C02Sys.lp_supply_ge_min_reachable", "MantraDex.C02Sys.lp_supply_moves_only_by_deposit_or_withdrawal",
                     "MantraDex.C02Sys.lp_funded_step", "MantraDex.C03Sys.cp_value_per_lp_step", "MantraDex.C03Sys.cp_value_per_lp_reachable",
                     "MantraDex.C16Tx.withdraw_liquidity_tx_effect_partial", "MantraDex.C16Tx.provide_liquidity_tx_effect_partial",
                     "MantraDex.C02Live.withdraw_liquidity_live_partial", "MantraDex.MonSound.monWithdraw_sound", "MantraDex.MonSound.monCpDeposit_sound_partial", "MantraDex.MonSound.monCpDeposit_sound_counterexample", "MantraDex.NonVac2.monWithdraw_sound_applies", "MantraDex.NonVac2.monCpDeposit_sound_partial_applies", "MantraDex.MintInv.mint_lpInv_partial"],
        "extra_modules": ["MantraDex.Properties.C02Sys", "MantraDex.Properties.C03Sys", "MantraDex.Properties.C16Tx", "MantraDex.Properties.C02Live", "MantraDex.Properties.MonSound", "MantraDex.Properties.NonVacuity2", "MantraDex.Properties.MintInv"],
        "streams": {"mintmath": (3000, 150000), "pm_hist": (160, 4000)},
        "what": "constant product: later mint = min over the two assets of floor(deposit*supply/reserve) <= the proportional contribution; x*y/supply^2 "
                "never decreases through a deposit or a withdrawal; first mint + locked 1000 = floor(sqrt(d0*d1)); a withdrawal pays floor(reserve*burned/"
                "supply) per asset (<= pro rata, > pro rata - 1) and any LP amount worth >= 1 unit of an asset gets a non-zero refund (after the F-02 fix); "
                "only provide_liquidity mints and only withdraw_liquidity burns LP; stableswap later mint = floor(supply*(D1adj-D0)/D0) with the code's D. "
                "THROUGH THE RUNTIME (C02Sys, C03Sys; deployments where no pool lists an LP token as an asset and the denom fee is not an LP token): across every whole "
                "transaction and history the supply of a pool's LP token moves only in a ProvideLiquidity (up) or a WithdrawLiquidity of that pool (down) sent to the pool "
                "manager; once funded the pool manager holds the locked minimum for ever, so the LP supply of a funded pool never falls below it (lp_supply_ge_min_reachable, "
                "lp_funded_step); and for every constant-product pool x*y/supply^2 never decreases through ANY transaction of any kind by anybody (swaps, routes, deposits of "
                "every shape incl. single-asset and locked, withdrawals), and x*y itself never decreases while the supply is unchanged (cp_value_per_lp_step, "
                "cp_value_per_lp_reachable). WHOLE TRANSACTIONS (C16Tx): an accepted WithdrawLiquidity burns exactly the attached LP (supply falls by it), pays the sender "
                "floor(reserve x burned / supply) of every asset and debits the reserves by exactly that, nothing else moves (withdraw_liquidity_tx_effect_partial); an accepted multi-asset unlocked "
                "ProvideLiquidity credits exactly the attached coins to the reserves and mints the shares to the receiver plus, only on the first deposit, the locked minimum to the pool manager "
                "(provide_liquidity_tx_effect_partial). LIVENESS (C02Live.withdraw_liquidity_live_partial): in every state satisfying the proved custody and LP invariants, while withdrawals are "
                "enabled, a holder's WithdrawLiquidity of any LP amount worth at least one unit of some asset IS accepted (for pools of non-factory assets)",
        "assumptions": ["stableswap: the link from the code's D to the exact invariant (two units) is C19's accuracy clause: validated by the exact-D "
                        "monitor monSsLp (value per LP never decreases; first mint = D within 2 units inside the supported range), not proved"],
    },
    "C19": {
        "module": "MantraDex.Properties.C19", "ns": "MantraDex.C19",
        "theorems": ["newton_ok_is_near_fixpoint", "newton_zero_fuel", "stableswap_y_is_near_fixpoint", "G_strictMono", "G_mono", "dCert_unique",
                     "dCert_sound", "bisect_flips", "ss_output_le_reserve",
                     "yStep_near_fixpoint_brackets_root", "root_floor_unique", "calculateStableswapY_eq", "stableswap_y_within_one_of_root",
                     "stableswap_y_never_wrong", "MantraDex.NonVac2.stableswap_y_within_one_of_root_applies", "MantraDex.NonVac2.stableswap_y_never_wrong_applies"],
        "extra_modules": ["MantraDex.Properties.C19Y", "MantraDex.Properties.NonVacuity2"],
        "streams": {"swapmath": (6000, 300000), "mintmath": (3000, 150000)},
        "what": "the Newton loops return a value only when two successive iterates are within the threshold, else ConvergeError (never a non-converged "
                "value); the y-solver returns near-fixpoints of its integer step, AND (C19Y) every value calculate_stableswap_y returns is floor(root) or "
                "floor(root)+1 of the quadratic y^2+(b-d)y-c with the coefficients c, b, d it computed from the pool (sign-change characterisation, unique): the "
                "solver never settles on a wrong answer and rounds by at most one unit of the highest precision; an accepted stableswap quote never exceeds the ask reserve; the exact "
                "reference is sound: the invariant polynomial G is strictly increasing, the bisection returns the flip point, the certificate "
                "G(d)<=0<G(d+1) pins floor(D) uniquely. The accuracy clause (|quote-exact| <= 2+2 units) is NOT proved: it is evaluated per generated case "
                "against the exact reference (monSsQuote) inside the supported range — and fails rarely by a small factor (known finding F-13)",
        "assumptions": ["accuracy clause validated by monitors, not proved; F-13 known finding (class: within 16x the bound + 1e-15 of the ask reserve)"],
    },

    "C03": {
        "module": "MantraDex.Properties.C03", "ns": "MantraDex.C03",
        "theorems": ["cp_gross_formula", "cp_swap_k_mono", "performSwap_k_mono", "cp_round_trip_no_profit", "ss_swap_D_witness",
                     "MantraDex.C03Sys.cp_value_per_lp_step", "MantraDex.C03Sys.cp_value_per_lp_reachable",
                     "MantraDex.C03NoDrain.no_history_drains_pool", "MantraDex.C03NoDrain.not_both_down", "MantraDex.MonSoundB.monSwapReserves_sound", "MantraDex.NonVac2.monSwapReserves_sound_applies", "MantraDex.NonVac2.no_history_drains_pool_applies", "MantraDex.MonSoundG.monHopK_sound"],
        "extra_modules": ["MantraDex.Properties.C03Sys", "MantraDex.Properties.C03NoDrain", "MantraDex.Properties.MonSoundB", "MantraDex.Properties.NonVacuity2", "MantraDex.Properties.MonSoundG"],
        "streams": {"swapmath": (4000, 200000), "pm_hist": (120, 3000)},
        "what": "constant product: gross output = floor(Y*o/(X+o)); x*y never decreases through compute_swap / perform_swap for every reserve, "
                "offer and fee setting incl. zero fees; a swap-and-swap-back round trip never returns more than was put in. THROUGH THE RUNTIME (C03Sys): for every "
                "constant-product pool, across every whole transaction of any kind by any account (direct swaps, every hop of a route incl. routes visiting the pool several times, the "
                "internal swap of a single-asset deposit, deposits, withdrawals, nested calls, rollbacks, faults) and hence every history, x*y/supply^2 never decreases and x*y never "
                "decreases while the LP supply is unchanged - no sequence of transactions extracts value from the pool; in the form a user reads it (C03NoDrain.no_history_drains_pool): between any two "
                "instants with the same LP supply, whatever anybody did in between, the pool has not lost one asset without gaining the other. Stableswap: the "
                "statement is false for the code (F-03, output rounded up): ss_swap_D_witness proves the negation on a concrete input by kernel "
                "evaluation; every observed swap is classified by the exact-invariant monitor (Spec/Invariant.lean)",
        "assumptions": ["stableswap half is NOT proved: known finding F-03 (KNOWN-FINDING line), monitor class C03-ss-rounding; anything beyond that class is a violation"],
    },
    "C04": {
        "module": "MantraDex.Properties.C04", "ns": "MantraDex.C04",
        "theorems": ["fee_is_floor_share", "fee_never_more", "computeFees_ok", "net_is_gross_minus_fees", "computeSwap_split",
                     "performSwap_ok", "swapHandler_messages", "routeHops_chain", "routeHops_fee_msgs",
                     "MantraDex.C04Sys.swap_tx_effect", "MantraDex.C12Sys.route_tx_effect", "MantraDex.MonSoundB.monSwapReserves_sound", "MantraDex.MonSoundB.monSwapBank_sound", "MantraDex.MonSoundC.monSwapFees_sound", "MantraDex.NonVac2.monSwapBank_sound_applies", "MantraDex.MonSoundE.route_broken_link_refused"],
        "extra_modules": ["MantraDex.Properties.C04Sys", "MantraDex.Properties.C12Sys", "MantraDex.Properties.MonSoundB", "MantraDex.Properties.MonSoundC", "MantraDex.Properties.NonVacuity2", "MantraDex.Properties.MonSoundE"],
        "streams": {"swapmath": (4000, 200000), "pm_hist": (120, 3000)},
        "what": "each fee = floor(gross*share) (never more); receiver gets gross minus all fees; perform_swap adds the offer in full and removes "
                "exactly net+protocol+burn from the ask reserve, nothing else changes; a direct swap emits exactly [send net to receiver][burn]"
                "[send protocol fee to collector] (each only when non-zero); each route hop consumes exactly the previous hop's output; route fee "
                "messages only burn or pay the fee collector. THROUGH THE RUNTIME (C04Sys.swap_tx_effect): an accepted Swap transaction changes the "
                "balance of every account and denom by exactly -offer (trader) +offer (pool manager) -(net+protocol+burn) (pool manager) +net "
                "(receiver) +protocol fee (collector), one additive formula covering every aliasing of the parties; nobody else's balance changes. ROUTES (C12Sys.route_tx_effect): an "
                "accepted ExecuteSwapOperations transaction (any number of hops) moves exactly: the offer in, the final output (and nothing of the intermediate hops) to the receiver, and the "
                "summed effect of the hops' fee messages, each of which is a burn or a payment to the fee collector",
    },
    "C06": {
        "module": "MantraDex.Properties.C06", "ns": "MantraDex.C06",
        "theorems": ["farm_terms_shape", "farm_terms_epochs_nodup", "term_le_emission", "rewards_after_cursor", "reclaim_pays_nothing",
                     "claim_sets_cursor", "claim_farms_bounded", "update_weights_effect_next_epoch",
                     "MantraDex.C07Split.epoch_shares_sum_le_rate", "MantraDex.C07Split.span_rewards_sum_le",
                     "MantraDex.C06Sys.claim_pays_entries", "MantraDex.C06Sys.entry_shape", "MantraDex.C06Sys.epoch_paid_le_emission",
                     "MantraDex.C06Sys.no_epoch_paid_twice_partial", "MantraDex.C06Sys.no_epoch_paid_twice_nonzero",
                     "MantraDex.C06Sys.no_epoch_paid_twice_default_until",
                     "MantraDex.C07Sys.claimed_eq_ledger", "MantraDex.C07Sys.claimed_le_emitted", "MantraDex.C07Sys.claim_never_exhausted",
                     "MantraDex.C08Tx.claim_tx_effect", "MantraDex.NonVacuity.hist_effective_detail", "MantraDex.NonVacuity.instance_emission", "MantraDex.MonSoundD.monClaim_sound_partial", "MantraDex.MonSoundD.claim_moves_claimed_by_spanReward", "MantraDex.MonSoundD.monClaim_sound_counterexample", "MantraDex.MintInv.mint_jInv", "MantraDex.MintInv.mint_txInvs"],
        "extra_modules": ["MantraDex.Properties.C07Split", "MantraDex.Properties.C06Sys", "MantraDex.Properties.C07Sys", "MantraDex.Properties.C08Tx", "MantraDex.Properties.NonVacuity", "MantraDex.Properties.MonSoundD", "MantraDex.Properties.MintInv"],
        "streams": {"fm_hist": (160, 4000)},
        "what": "END TO END OVER WHOLE HISTORIES (C06Sys): a ledger of every reward payment is derived from the history (the per-epoch terms of every ACCEPTED "
                "top-level Claim; the coins a claim sends are exactly the sum of its entries, claim_pays_entries); in every history of account-signed transactions from a "
                "fresh deployment (nested calls, replies, rollbacks, injected faults; epoch configuration unchanged): for every farm (identifier, LP token, emission rate) and "
                "every epoch the rewards paid to ALL users for that epoch add up to at most the epoch's emission (epoch_paid_le_emission); every entry is floor(rate * user weight "
                "in effect / total weight in effect) with user weight <= total != 0 (entry_shape); no (user, LP token, farm, epoch) receives a non-zero amount twice "
                "(no_epoch_paid_twice_partial / _nonzero; the version counting zero-weight entries is refuted by an evaluated 15-transaction counterexample: a backdated claim after a "
                "full exit rewinds the cursor and the next claim re-lists old epochs with weight 0 - nothing is paid twice - and holds when every claim uses the default until, "
                "no_epoch_paid_twice_default_until). A farm's claimed_amount equals the sum of the ledger entries it paid since its creation (claimed_eq_ledger), hence cumulative payouts "
                "<= emission rate x farm epochs that have begun, and rate x (end - start) <= funded amount (claimed_le_emitted); NO CLAIM IS EVER REFUSED FOR LACK OF FARM FUNDS in a reachable "
                "state, whatever others claimed before - no claim by one user can make another user's rightful claim fail (claim_never_exhausted). Handler level: every reward term is floor(rate*user_weight/total_weight) for an epoch inside the farm's life and strictly after the claim cursor, "
                "at most one term per epoch; <= the epoch's emission when user weight <= total; the cursor moves to until (<= current epoch), "
                "re-claiming pays nothing and earlier untils are refused (no epoch paid twice); claimed_amount never exceeds the funded amount; "
                "weight changes are recorded for epoch+1 only. End-to-end bound over whole histories: ledger monitor monClaim on every claim"
                "; all users together: the shares of any user set whose weights are covered by the total add up to <= the epoch's emission, and over a span to <= rate x epochs (C07Split.epoch_shares_sum_le_rate, span_rewards_sum_le)",
        "assumptions": ["C06Sys holds while the epoch configuration is unchanged along the history (hypothesis Stable, as C10Sys); on the implementation the same ledger is "
                        "recomputed independently by the harness and compared on every generated claim (monClaim)"],
    },
    "C07": {
        "module": "MantraDex.Properties.C07", "ns": "MantraDex.C07",
        "theorems": ["histSet_sorted", "histGet_histSet", "weightAt_histSet_before", "address_scan_eq_weightAt", "contract_scan_eq_weightAt",
                     "sync_preserves_weightAt", "farm_terms_sum_eq_ledger", "epoch_share_floor", "query_eq_claim_single_lp",
                     "MantraDex.C07Split.spanReward_split", "MantraDex.C07Split.claim_split_total", "MantraDex.C07Split.claim_split_state",
                     "MantraDex.C06Sys.claim_pays_entries", "MantraDex.C06Sys.entry_shape",
                     "MantraDex.C07Sys.owed_frozen_partial", "MantraDex.C07Sys.claim_never_exhausted", "MantraDex.C07Sys.claimed_eq_ledger",
                     "MantraDex.C07Q.query_eq_claim_partial", "MantraDex.C07Q.query_nonempty_claim_pays_or_refuses_partial",
                     "MantraDex.C07Q.query_eq_claim_counterexample", "MantraDex.MonSoundD.monClaim_sound_partial", "MantraDex.MonSoundD.monClaim_sound_of_invariants", "MantraDex.NonVac2.query_eq_claim_partial_applies", "MantraDex.MonSoundG.monTopupWeight_sound_any_sender"],
        "extra_modules": ["MantraDex.Properties.C07Split", "MantraDex.Properties.C06Sys", "MantraDex.Properties.C07Sys", "MantraDex.Properties.C07Q", "MantraDex.Properties.MonSoundD", "MantraDex.Properties.NonVacuity2", "MantraDex.Properties.MonSoundG"],
        "streams": {"fm_hist": (160, 4000)},
        "also_tags": ["C06-overpaid", "C10-weight-misattributed"],   # C07 says "never more": the ledger monitor's over-payment tag decides C07 as well
        "what": "refinement core: the user scan and the total-weight scan of the compacted history compute the ledger's weight in effect (Spec.weightAt); "
                "claim-time compaction preserves the weight in effect from the claimed epoch on (schedule independence); a farm's terms add up to "
                "the ledger entitlement Spec.spanReward; each payment is the floor of the exact share; Rewards query = Claim payout (single LP token)"
                "; end-to-end schedule independence of Claim (one LP token): claim up to a then up to b pays per denom exactly what a single claim up to b pays, and leaves the same cursor, the same claimed amounts and the same weights in effect (C07Split.claim_split_total, claim_split_state, spanReward_split)"
                "; ACROSS INTERLEAVED OPERATIONS OF EVERYBODY ELSE, over whole histories (C07Sys.owed_frozen_partial): while the paying farm exists, every non-zero entry of a user's pending claim "
                "(LP token, farm, epoch, user weight, total weight, reward) is still there, unchanged, after ANY transaction signed by somebody else - other users' opens, closes, claims in any "
                "split, farm creations and expansions, time - so what a user is owed for an epoch that has begun depends on nothing that happens afterwards; with claim splitting this is schedule "
                "independence (the only added hypothesis rules out a u128 overflow in the recomputation, reachable in the model only with farm budgets above 2^128: evaluated counterexample)",
        "assumptions": ["schedule independence is proved for splitting one claim into two (hence, by iteration, into any number) for users with one LP token and "
                        "no other operation in between; across interleaved operations of other users it is validated per generated claim by the independent "
                        "ledger monitor; query=claim proved for any number of LP tokens given unique farm identifiers (C07Q.query_eq_claim_partial; the invariant of C05Sys/C11Sys; the statement without it is "
                        "refuted by an evaluated state with two farms sharing an identifier)"],
    },

    "C08": {
        "module": "MantraDex.Properties.C08", "ns": "MantraDex.C08",
        "theorems": ["normal_withdraw_requires_unlock", "normal_withdraw_pays_exact", "emergency_after_unlock_is_normal", "close_sets_expiry",
                     "partial_close_splits", "expand_adds_exact", "others_cannot_touch_position", "create_position_identifier",
                     "MantraDex.C08Sys.withdraw_after_unlock", "MantraDex.C08Sys.withdraw_before_unlock_refused",
                     "MantraDex.C15Sys.positions_change_only_by_owner_tx_partial", "MantraDex.C15Sys.new_positions_belong_to_signer_partial",
                     "MantraDex.C08Tx.create_position_tx_effect", "MantraDex.C08Tx.expand_position_tx_effect",
                     "MantraDex.C08Tx.close_position_tx_effect_general", "MantraDex.C08Tx.close_position_tx_effect_partial",
                     "MantraDex.PosTx.Cx.close_zero_counterexample", "MantraDex.MonSoundC.monWithdrawPosAccept_sound", "MantraDex.MonSoundC.monWithdrawPos_normal_sound", "MantraDex.MonSoundE.monCloseExpiry_sound", "MantraDex.MonSoundG.monTopupBacked_sound", "MantraDex.MonSoundG.withdraw_only_owner_tx"],
        "extra_modules": ["MantraDex.Properties.C08Sys", "MantraDex.Properties.C15Sys", "MantraDex.Properties.C08Tx", "MantraDex.Properties.MonSoundC", "MantraDex.Properties.MonSoundE", "MantraDex.Properties.MonSoundG"],
        "streams": {"fm_hist": (160, 4000)},
        "what": "a non-emergency withdrawal is accepted only from the owner, for a closed position whose unlock instant (close time + unlocking "
                "duration, boundary second included) is reached, pays exactly the recorded amount and deletes the position; an emergency request after "
                "unlocking is the normal withdrawal; closing fixes expiring_at = now + duration; a partial close splits amount = remainder + part "
                "(same owner, fresh p-N id); expanding adds exactly the attached amount; messages from anyone who is neither the owner nor the pool "
                "manager leave a position untouched (given the next generated id is free); new ids are u-<given> / p-<counter+1> and never existing ones. "
                "THROUGH THE RUNTIME (C08Sys): in every state satisfying the proved custody invariant FmInv, the owner's plain withdrawal of a closed, "
                "unlocked position IS accepted, pays exactly the recorded amount from the farm manager to the owner, deletes the position and moves "
                "nothing else (withdraw_after_unlock); before the unlock instant a plain withdrawal by anybody leaves the world unchanged "
                "(withdraw_before_unlock_refused). WHOLE TRANSACTIONS (C08Tx, C15Sys): exact effect of CreatePosition (the attached LP moves to the farm manager, one new open position of "
                "exactly that amount for the sender, everything else untouched), ExpandPosition (exactly the attached amount added to the sender's own position), ClosePosition (no token moves; "
                "full close keeps the amount and fixes the unlock instant; a partial close splits into an open remainder and a closed part whose amounts add up to the original - a zero-amount "
                "closed part is possible, kernel-checked counterexample, harmless: no LP created or lost); a position is exactly as it was after any transaction not signed by its owner",
        "assumptions": ["the frame theorem's freshness assumption on generated identifiers is part of the proved reachable-state invariant C05Sys.FmInv (autoFresh)"],
    },

    "C05": {
        "module": "MantraDex.Properties.C05", "ns": "MantraDex.C05",
        "theorems": ["create_position_conserves", "expand_position_conserves", "close_position_conserves", "withdraw_position_conserves",
                     "claim_conserves", "create_farm_conserves", "expand_farm_conserves", "close_farm_conserves", "config_conserves",
                     "MantraDex.C05Sys.fm_inv_step", "MantraDex.C05Sys.fm_inv_reachable", "MantraDex.C05Sys.fm_custody_reachable",
                     "MantraDex.C05Sys.fm_inv_init", "MantraDex.C08Tx.claim_tx_effect", "MantraDex.NonVacuity.w0_fmInv", "MantraDex.NonVacuity.instance_custody",
                     "MantraDex.C02Live.close_farm_live", "MantraDex.C08Sys.withdraw_after_unlock", "MantraDex.MintInv.mint_fmInv", "MantraDex.MintInv.mint_fmCov", "MantraDex.MonSoundF.monFmCustody_sound"],
        "extra_modules": ["MantraDex.Properties.C05Sys", "MantraDex.Properties.C08Tx", "MantraDex.Properties.NonVacuity", "MantraDex.Properties.C02Live", "MantraDex.Properties.C08Sys", "MantraDex.Properties.MintInv", "MantraDex.Properties.MonSoundF"],
        "streams": {"fm_hist": (160, 4000), "faults": (45, 1500)},
        "what": "handler-level conservation law of the farm manager for every token: liability' + outflow(messages) <= liability + inflow(funds), "
                "where liability = sum of recorded position amounts + sum over farms of (funded - claimed); proved for every message kind "
                "(positions create/expand/close/withdraw incl. emergency split, claim, farm create/expand/close, config). With the bank semantics "
                "this is 'balance - liability never decreases', i.e. the farm manager always holds every locked LP and every unclaimed reward"
                " LIFTED THROUGH THE RUNTIME (C05Sys): the invariant 'FM bank balance >= liability for every denom' + its well-formedness is preserved by every whole transaction of an external sender executed by the CosmWasm runtime model (nested calls, reply modes, rollback, any injected fault) and hence holds in every reachable state (fm_inv_step, fm_inv_reachable, fm_custody_reachable, fm_inv_init). 'HENCE EVERY POSITION CAN BE WITHDRAWN IN FULL AND EVERY FARM'S REMAINDER REFUNDED AT ANY TIME' as "
                "liveness theorems: in every state satisfying the invariant an unlocked closed position's withdrawal IS accepted and pays the recorded amount (C08Sys.withdraw_after_unlock), and the farm owner's "
                "(or contract owner's) CloseFarm IS accepted (C02Live.close_farm_live); exact effect of an accepted Claim (C08Tx.claim_tx_effect)",
        "assumptions": ["the lift through the runtime to whole transactions is proved for the runtime/bank MODEL (Model/System.lean, Model/World.lean: cw-multi-test "
                        "semantics, trusted, exercised by the history and fault streams) and for transactions signed by accounts (never by a contract address); "
                        "on the implementation it is validated by the custody monitor on every step",
                        "position/farm identifiers unique and generated position ids beyond the counter unused: part of the proved invariant FmInv (C05Sys)"],
    },
    "C11": {
        "module": "MantraDex.Properties.C11", "ns": "MantraDex.C11",
        "theorems": ["farm_asset_exact", "farm_fee_messages", "create_farm_records_partial", "expand_farm_exact", "close_farms_refunds",
                     "farms_per_lp_le_max_partial", "max_farms_never_decreases",
                     "MantraDex.C11Sys.close_farm_tx_effect", "MantraDex.C11Sys.expand_farm_tx_effect", "MantraDex.C11Sys.create_farm_tx_effect_partial",
                     "MantraDex.C11Sys.farm_ids_nodup_step", "MantraDex.C11Sys.max_farms_mono_step", "MantraDex.C11Sys.farm_limit_step_partial",
                     "MantraDex.C11Sys.farm_limit_reachable_final", "MantraDex.C11Sys.farm_limit_reachable_partial", "MantraDex.C11Sys.farm_limit_reachable_inv",
                     "MantraDex.C15Sys.farms_change_only_by_authorised_tx",
                     "MantraDex.C20Tx.create_farm_autoclose_tx_effect_partial", "MantraDex.C20Tx.create_farm_autoclose_tx_effect_counterexample", "MantraDex.MonSoundF.monFarmExpand_sound", "MantraDex.MonSoundF.monFarmCreate_sound", "MantraDex.MonSoundF.monFarmClose_sound", "MantraDex.MonSoundF.monFarmCreate_fires_collector_is_fm", "MantraDex.MonSoundF.monFarmClose_fires_owner_is_fm"],
        "extra_modules": ["MantraDex.Properties.C11Sys", "MantraDex.Properties.C15Sys", "MantraDex.Properties.C20Tx", "MantraDex.Properties.MonSoundF"],
        "streams": {"fm_hist": (160, 4000)},
        # "closing - by the farm owner, the contract owner, or automatically": the CloseFarm authority monitor decides C11 as well
        "also_tags": ["C15-unauthorised-accepted"],
        "what": "create_farm takes exactly the reward (+ fee coin when a non-zero fee is due; one coin of reward+fee in the same denom), refunds a fee "
                "overpayment and sends exactly the fee to the collector; records the full reward as budget, claimed 0, sender as owner, rate = "
                "floor(reward/(end-start)), start > current epoch within the buffer; expand adds exactly the attached multiple of the rate and extends "
                "the end by amount/rate, only before the end; closing refunds exactly funded-claimed to the farm owner and nobody else; farms per LP "
                "token never exceed the configured maximum (for max <= 100, F-12); the maximum can only be raised. THROUGH THE RUNTIME (C11Sys): exact bank effect of "
                "whole farm transactions - CloseFarm (only the farm's owner or the contract owner; the farm disappears, nothing else changes; the owner receives exactly "
                "funded - claimed from the farm manager, or, if that transfer is made to fail, nothing moves and the farm is still closed), ExpandFarm (only the owner; exactly "
                "the attached amount moves into the farm's budget, end + amount/rate), CreateFarm when no expired farm is closed on the way (creator pays exactly reward + fee "
                "net of the refund, the farm manager keeps exactly the reward, the fee collector gets exactly the fee; _partial: auto-close excluded; WITH auto-close: C20Tx.create_farm_autoclose_tx_effect_partial - every expired farm of the LP token is removed and its owner refunded exactly the "
                "unclaimed remainder, in addition to the above); in every reachable state "
                "farm identifiers are unique, the maximum never decreases and no LP token has more farms than the maximum (farm_limit_reachable_*; the version without unique "
                "identifiers is refuted by a proved counterexample); a farm keeps owner, parameters and budget unless the transaction is its owner's ExpandFarm, a CloseFarm by "
                "its owner / the contract owner, or somebody's CreateFarm after it expired (C15Sys.farms_change_only_by_authorised_tx)",
        "assumptions": ["create_farm_records needs: no expired farm of the LP token carries the new identifier (it would be closed and its id reused in the same call — noted, harmless)",
                        "F-12: with max_concurrent_farms > MAX_FARMS_LIMIT (100) the limit check only sees 100 farms; proved under max <= 100"],
    },

    "C12": {
        "module": "MantraDex.Properties.C12", "ns": "MantraDex.C12",
        "theorems": ["simulation_eq_swap", "performSwap_frame", "route_eq_simulation", "reverse_quote_plus_one_suffices_partial", "reverse_quote_witness",
                     "MantraDex.C12Sys.swap_tx_equals_simulation", "MantraDex.C12Sys.simops_amount_eq_chain", "MantraDex.C12Sys.route_tx_chain",
                     "MantraDex.C12Sys.route_tx_simulation_agrees", "MantraDex.C12Sys.route_tx_equals_simulation_partial",
                     "MantraDex.C12Sys.route_tx_equals_simulation_counterexample", "MantraDex.C12Sys.reverse_query_plus_one_suffices_partial", "MantraDex.MonSoundE.monRouteUnquoted_sound", "MantraDex.MonSoundE.route_broken_link_refused", "MantraDex.MonSoundF.monQuote_sound"],
        "extra_modules": ["MantraDex.Properties.C12Sys", "MantraDex.Properties.MonSoundE", "MantraDex.Properties.MonSoundF"],
        "streams": {"swapmath": (4000, 200000), "pm_hist": (120, 3000)},
        "what": "Simulation = Swap on all amounts in any state (both pool types); a swap leaves every other pool untouched; executing a route over "
                "pairwise distinct pools yields exactly the chained simulation on the initial state; reverse quote + 1 suffices for zero fees "
                "(general statement false for large asks: F-09 witness proved by kernel evaluation). THROUGH THE RUNTIME AND THE QUERY ENTRY POINTS (C12Sys, Model/Queries.lean): an "
                "accepted Swap transaction moves exactly what the Simulation query answered an instant before (return to the receiver, protocol fee to the collector, burn fee destroyed, "
                "offer in; one additive formula, swap_tx_equals_simulation); an accepted ExecuteSwapOperations transaction's final output equals the chained Simulation of the pre-state for "
                "routes over pairwise distinct pools, and equals the SimulateSwapOperations answer whenever that query answers (route_tx_chain, route_tx_simulation_agrees; the query can "
                "additionally FAIL by a u128 overflow while summing per-denom fee lists that the execution never computes - kernel-checked counterexample with reserves near 2^128 - so the "
                "unconditional equality is proved for routes whose hops have distinct output denoms: route_tx_equals_simulation_partial); SimulateSwapOperations = chained Simulation; "
                "ReverseSimulation + 1 suffices through the queries on fee-less constant-product pools",
        "assumptions": ["reverse quote with non-zero fees: known finding F-09 (short by up to ask*1e-18 units); proved only for zero fees"],
    },
    "C13": {
        "module": "MantraDex.Properties.C13", "ns": "MantraDex.C13",
        "theorems": ["default_and_cap", "max_slippage_accept_iff", "belief_accept_iff", "tolerance_monotone_swap", "tolerance_capped",
                     "min_receive_enforced", "deposit_tolerance_above_one_refused", "cp_deposit_accept_iff", "tolerance_monotone_deposit",
                     "cp_exact_proportion_accepted", "ss_exact_proportion_rejected_witness",
                     "MantraDex.C12Sys.swap_tx_within_slippage", "MantraDex.C12Sys.route_tx_min_receive", "MantraDex.C20Tx.swap_tx_belief_price",
                     "MantraDex.C13Tx.provide_tx_within_tolerance", "MantraDex.C13Tx.provide_tx_within_tolerance_locked",
                     "MantraDex.C13Tx.provide_tx_tolerance_monotone", "MantraDex.C13Tx.provide_tx_tolerance_monotone_any",
                     "MantraDex.C13Tx.provide_tx_tolerance_above_one_refused_partial", "MantraDex.C13Tx.provide_tx_tolerance_above_one_unchanged", "MantraDex.MonSoundC.monCpSlippage_sound", "MantraDex.NonVac2.provide_tx_within_tolerance_applies", "MantraDex.NonVac2.provide_tx_tolerance_monotone_applies", "MantraDex.NonVac2.tol1_refuses", "MantraDex.MonSoundG.monMinReceive_sound", "MantraDex.MonSoundH.monCpSlippage_hop_sound", "MantraDex.MonSoundH.monCpSlippage_first_hop_sound"],
        "extra_modules": ["MantraDex.Properties.C12Sys", "MantraDex.Properties.C20Tx", "MantraDex.Properties.C13Tx", "MantraDex.Properties.MonSoundC", "MantraDex.Properties.NonVacuity2", "MantraDex.Properties.MonSoundG", "MantraDex.Properties.MonSoundH"],
        "streams": {"swapmath": (4000, 200000), "mintmath": (4000, 200000), "pm_hist": (120, 3000)},
        "what": "swap/route: accept iff slippage/(return+slippage) <= min(tolerance or 1%, 50%) (or, with a belief price, iff return >= expected or "
                "short by <= tolerance); monotone in the tolerance; > 50% capped; routes deliver >= minimum_receive or fail; constant-product deposit: "
                "accept iff both deposit ratios*(1-tol) <= pool ratios, monotone, exact proportion always accepted, tolerance > 1 refused. "
                "Stableswap deposit tolerance rejects exact-proportion deposits: F-11 witness (kernel evaluation). DEPOSITS AS WHOLE TRANSACTIONS (C13Tx): an accepted two-coin ProvideLiquidity "
                "with a tolerance into a constant-product pool with non-zero reserves satisfies the tolerance predicate on the reserves as they were BEFORE the deposit (locked or not); a transaction "
                "accepted under t1 is accepted with the very same resulting world under any t2 in [t1, 100 %] - any funds, pool type, lock options, incl. the single-asset path through buffer, self-swap, "
                "reply and second leg; a tolerance above 100 % is refused as a whole on every two-asset funded constant-product pool (the statement without the two-asset shape is refuted by an evaluated "
                "three-asset pool with an empty reserve). THROUGH THE RUNTIME (C12Sys): an accepted Swap transaction "
                "(any injected fault position) satisfied slippage/(return+slippage) <= min(max_slippage or 1%, 50%) on the pre-trade pool (swap_tx_within_slippage); an accepted route's "
                "final output is at least minimum_receive (route_tx_min_receive); an accepted Swap under a belief price returned at least floor(offer/belief) or is short of it by at most the "
                "effective tolerance (C20Tx.swap_tx_belief_price); a rejected transaction changes nothing (step)",
        "assumptions": ["stableswap deposit tolerance: known finding F-11"],
    },
}

HOOK_COMMITS = ["4dbfdab", "9c77502"]
NOT_YET = {}
