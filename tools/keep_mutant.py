#!/usr/bin/env python3
"""tools/keep_mutant.py <seeded-id> <agent-outdir> <caught-by json>  — copies a confirmed seeded change into /verif/seeded/<id>/"""
import json, os, re, shutil, sys
sid, out, caught = sys.argv[1], sys.argv[2], json.loads(sys.argv[3])
dst = os.path.join("/verif/seeded", sid)
os.makedirs(dst, exist_ok=True)
txt = open(os.path.join(out, "patch.diff")).read()
parts = re.split(r'(?m)^(?=diff --git )', txt)
src = "".join(p for p in parts if re.match(r'diff --git a/(\S+)', p) and not any(x in re.match(r'diff --git a/(\S+)', p).group(1) for x in ("/tests/", "src/tests")))
open(os.path.join(dst, "patch.diff"), "w").write(src)
for f in ("demo_test.rs", "demo_apply.md"):
    if os.path.exists(os.path.join(out, f)):
        shutil.copy(os.path.join(out, f), os.path.join(dst, f))
meta = json.load(open(os.path.join(out, "meta.json")))
conf = json.load(open(os.path.join(out, "confirm.json")))
conf["with_change"]["failed_tests"] = [t for t in conf["with_change"]["failed_tests"] if "::" in t]
meta["confirmed_by_me"] = {
    "how": "tools/confirm_mutant.sh in the agent's scratch worktree: full workspace suite with change+demo, then with the source change reverse-applied (demo kept)",
    "with_change": conf["with_change"], "without_change": conf["without_change"],
}
meta["checks_run"] = caught
meta["origin"] = "independent sub-agent given only the property text and a scratch worktree of /repo"
json.dump(meta, open(os.path.join(dst, "meta.json"), "w"), indent=1)
print("kept", dst, os.listdir(dst))
