#!/bin/bash
# usage: tools/process_mutants.sh <round>   e.g. m7   — for every /tmp/<round>out/Cxx with a meta.json and no .processed marker:
# confirm (suite green with the change, demo fails with / passes without) and try the property's quick check on a private copy.
R=$1
for d in /tmp/${R}out/C*/; do
  p=$(basename $d)
  [ -f $d/meta.json ] || continue
  [ -f $d/.processed ] && continue
  [ -f $d/patch.diff ] || continue
  c=$(tools/confirm_mutant.sh $p-$R /tmp/$R/$p $d 2>&1 | grep '"confirmed"' | tr -d ' ,')
  t=$(tools/try_mutant_isolated.sh $d/patch.diff $p 2>&1 | tail -1)
  echo "$p $c $t" | tee $d/.processed
done
