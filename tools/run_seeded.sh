#!/bin/bash
# usage: tools/run_seeded.sh [id-prefix]  — applies every seeded change in turn to /repo, runs the quick check of the
# property named by the id prefix (Cxx-…), restores /repo, and prints one line per change.
cd /verif
for d in seeded/${1:-}*/; do
  id=$(basename $d); p=${id%%-*}
  out=$(tools/try_mutant.sh $d/patch.diff $p 2>&1 | grep "^\[$p\]\|^VIOLATION" | head -1)
  echo "$id | $out"
done
