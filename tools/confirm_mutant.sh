#!/bin/bash
# usage: tools/confirm_mutant.sh <id> <worktree> <outdir>
# In the agent's scratch worktree (demo test applied, uncommitted).  The source change is taken from
# <outdir>/patch.diff (non-test files only) — NOT from the worktree state, and `git stash` is never used
# (the stash is shared by all worktrees of a repository).
#  1. source files of the patch reset to HEAD, patch applied: suite with change + demo → every pre-existing test
#     passes, only demo test(s) fail;
#  2. patch reversed (demo kept): everything passes.
id=$1; wt=$2; out=$3
cd $wt || exit 2
export CARGO_NET_OFFLINE=true
# (the pool-manager test binary links libpython through a dev-dependency; whichever interpreter the build picked up, make its library loadable)
export LD_LIBRARY_PATH=/root/.pyenv/versions/3.13.0/lib:/root/miniconda/lib:${LD_LIBRARY_PATH:-}
python3 - "$out/patch.diff" > $out/_src.diff <<'PY'
import sys,re
txt=open(sys.argv[1]).read()
for p in re.split(r'(?m)^(?=diff --git )',txt):
    m=re.match(r'diff --git a/(\S+)',p)
    if m and '/tests/' not in m.group(1) and 'src/tests' not in m.group(1): sys.stdout.write(p)
PY
files=$(grep '^diff --git' $out/_src.diff | sed 's#diff --git a/\(\S*\) .*#\1#')
git checkout -- $files
git apply $out/_src.diff || { echo "patch does not apply"; exit 2; }
cargo test --workspace --no-fail-fast --offline > $out/confirm_with_change.log 2>&1
p1=$(grep -E "^test result" $out/confirm_with_change.log | awk '{p+=$4; f+=$6} END {print p" "f}')
failed1=$(grep -E "^test .* \.\.\. FAILED" $out/confirm_with_change.log | sed 's/^test //; s/ \.\.\. FAILED//' | sort -u | tr '\n' ' ')
git apply -R $out/_src.diff
cargo test --workspace --no-fail-fast --offline > $out/confirm_without_change.log 2>&1
p2=$(grep -E "^test result" $out/confirm_without_change.log | awk '{p+=$4; f+=$6} END {print p" "f}')
git apply $out/_src.diff
python3 - "$id" "$p1" "$failed1" "$p2" "$out" <<'PY'
import sys,json
id,p1,failed1,p2,out=sys.argv[1:6]
a,b=p1.split(); c,d=p2.split()
json.dump({"id":id,"with_change":{"passed":int(a),"failed":int(b),"failed_tests":failed1.split()},
           "without_change":{"passed":int(c),"failed":int(d)},
           "confirmed": int(b)>=1 and int(d)==0 and int(a)>=159},open(out+"/confirm.json","w"),indent=1)
print(open(out+"/confirm.json").read())
PY
