#!/bin/bash
# usage: tools/confirm_mutant.sh <Cxx-or-name> <worktree> <outdir>
# In the agent's scratch worktree (source change + demo test applied, uncommitted):
#  1. suite with change + demo: every pre-existing test passes, only demo test(s) fail;
#  2. source change reverted (demo kept): everything passes.
# Writes <outdir>/confirm.json
id=$1; wt=$2; out=$3
cd $wt || exit 2
export CARGO_NET_OFFLINE=true
# tracked, non-test source files that differ from HEAD = the mutation
src=$(git diff --name-only | grep -v "/tests/" | grep -v "tests.rs$" | grep -v "/tests/mod.rs" | grep "^contracts/.*/src/" | grep -v "src/tests")
echo "mutation files: $src"
cargo test --workspace --no-fail-fast --offline > $out/confirm_with_change.log 2>&1
p1=$(grep -E "^test result" $out/confirm_with_change.log | awk '{p+=$4; f+=$6} END {print p" "f}')
failed1=$(grep -E "^test .* FAILED|^    [a-z_:]+$" $out/confirm_with_change.log | grep FAILED | sed 's/^test //; s/ \.\.\. FAILED//' | sort -u | tr '\n' ' ')
git stash push -q -- $src
cargo test --workspace --no-fail-fast --offline > $out/confirm_without_change.log 2>&1
p2=$(grep -E "^test result" $out/confirm_without_change.log | awk '{p+=$4; f+=$6} END {print p" "f}')
git stash pop -q
python3 - "$id" "$p1" "$failed1" "$p2" "$out" <<'PY'
import sys,json
id,p1,failed1,p2,out=sys.argv[1:6]
a,b=p1.split(); c,d=p2.split()
json.dump({"id":id,"with_change":{"passed":int(a),"failed":int(b),"failed_tests":failed1.split()},
           "without_change":{"passed":int(c),"failed":int(d)},
           "confirmed": int(b)>=1 and int(d)==0 and int(a)>=159},open(out+"/confirm.json","w"),indent=1)
print(open(out+"/confirm.json").read())
PY
