#!/bin/bash
# usage: tools/try_mutant_isolated.sh <patch.diff> <prop> [<prop>...]
# Applies the source part of a patch to a PRIVATE copy of /repo and runs a private copy of /verif (with its build
# output) against it; /repo and /verif stay untouched.  VERIF_SEED / tier via environment (TIER=quick|thorough).
# The private copy lives in $TRYISO_DIR (default /tmp/tryiso) and is refreshed from /verif and /repo on every call.
set -u
PATCH=$(realpath "$1"); shift
W=${TRYISO_DIR:-/tmp/tryiso}
mkdir -p $W
rsync -a --delete --exclude target --exclude .git /repo/ $W/repo.orig/
mkdir -p $W/repo
rsync -rlD --delete --checksum $W/repo.orig/ $W/repo/
rsync -a --delete --exclude .git --exclude replays --exclude evidence --exclude harness/Cargo.toml /verif/ $W/verif/
sed "s#/repo/contracts#$W/repo/contracts#" /verif/harness/Cargo.toml > $W/verif/harness/Cargo.toml.new
cmp -s $W/verif/harness/Cargo.toml.new $W/verif/harness/Cargo.toml || cp $W/verif/harness/Cargo.toml.new $W/verif/harness/Cargo.toml
mkdir -p $W/verif/evidence
export MDX_REPO=$W/repo
python3 - "$PATCH" > $W/src.diff <<'PY'
import sys,re
txt=open(sys.argv[1]).read()
for part in re.split(r'(?m)^(?=diff --git )',txt):
    m=re.match(r'diff --git a/(\S+)',part)
    if m and '/tests/' not in m.group(1) and 'src/tests' not in m.group(1) and m.group(1).endswith('.rs') or (m and m.group(1).endswith('Cargo.toml')): sys.stdout.write(part)
PY
if ! (cd $W/repo && patch -p1 -s < $W/src.diff); then echo "patch does not apply"; exit 2; fi
cd $W/verif
rm -rf replays
for p in "$@"; do
  out=$(bin/check $p --tier ${TIER:-quick} 2>&1 | grep "^VIOLATION\|^OK" | head -2 | tr '\n' ' ')
  echo "[$p] $out"
done
