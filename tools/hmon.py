#!/usr/bin/env python3
"""dev helper: run a history stream through the driver and summarise monitor verdicts"""
import subprocess, sys, collections
stream, seed, cases = sys.argv[1], sys.argv[2], sys.argv[3]
impl = subprocess.run(["harness/target/release/mdx-harness", stream, "--seed", seed, "--cases", cases], capture_output=True, text=True).stdout
model = subprocess.run(["lean/.lake/build/bin/mdxdrv"], input=impl, capture_output=True, text=True).stdout
il, ml = impl.splitlines(), model.splitlines()
cnt = collections.Counter(); viol = collections.Counter(); ex = {}
dis = 0
last_tx = ""
for a, b in zip(il, ml):
    if a.startswith("tx") or a.startswith("send"): last_tx = a
    if " => " not in b: continue
    l, r = b.split(" => ", 1)
    op = l.split()[0]
    if op.startswith("mon_"):
        cnt[op] += 1
        if r != "ok":
            viol[r] += 1
            ex.setdefault(r, (last_tx[:260], l[:260]))
    elif a != b:
        dis += 1
print("lines", len(il), "disagreements", dis)
for k, v in sorted(cnt.items()): print(f"  {k:26s} {v}")
for k, v in viol.most_common(): print("VIOL", k, v, "\n    ", ex[k][0], "\n    ", ex[k][1])
