#!/usr/bin/env python3
"""Regenerate lean/MantraDex/Generated/Consts.lean from the Rust sources of the *current working tree*
of /repo (and from the pinned mantra-dex-std crate in the cargo registry for the constants that live
there).  Rewrites the output only when it changed (so lake does not rebuild needlessly).

Every constant is located by (file, regex).  A pattern that no longer matches is a *broken tie*: the
script exits 2 and names the constant; bin/check reports that as a violation with
no-failing-input-found (the model can no longer be regenerated from the source).
"""
import glob, json, os, re, sys

REPO = os.environ.get("MDX_REPO", "/repo")
OUT = os.path.join(os.path.dirname(os.path.abspath(__file__)), "..", "lean", "MantraDex", "Generated", "Consts.lean")


def std_dir():
    lock = open(os.path.join(REPO, "Cargo.lock")).read()
    m = re.search(r'name = "mantra-dex-std"\nversion = "([^"]+)"', lock)
    ver = m.group(1) if m else "3.1.0"
    c = sorted(glob.glob(os.path.expanduser(f"~/.cargo/registry/src/*/mantra-dex-std-{ver}")))
    if not c:
        print(f"extract_constants: mantra-dex-std-{ver} not in cargo registry", file=sys.stderr)
        sys.exit(2)
    return c[0]


STD = None

PM = "contracts/pool-manager/src/"
FM = "contracts/farm-manager/src/"
EM = "contracts/epoch-manager/src/"

INT = r"([0-9_]+)(?:u\d+|usize)?"


def dec(s):  # "0.01" -> atomics
    if "." in s:
        a, b = s.split(".")
    else:
        a, b = s, ""
    b = (b + "0" * 18)[:18]
    return int(a) * 10**18 + int(b)


def pct(s):
    return int(s) * 10**16


# (lean name, root, file, regex, converter, kind)
SPECS = [
    # ---- pool manager
    ("NEWTON_ITERATIONS", "repo", PM + "helpers.rs", r"const NEWTON_ITERATIONS: u64 = " + INT + ";", int, "nat"),
    ("A_PRECISION", "repo", PM + "helpers.rs", r"const A_PRECISION: u64 = " + INT + ";", int, "nat"),
    ("COMPUTE_Y_RAW_ITERATIONS", "repo", PM + "helpers.rs", r"for _ in 0\.\.(\d+) \{\s*y_prev = y;", int, "nat"),
    ("DEFAULT_SLIPPAGE", "repo", PM + "swap/perform_swap.rs", r'pub const DEFAULT_SLIPPAGE: &str = "([0-9.]+)";', dec, "nat"),
    ("MAX_ALLOWED_SLIPPAGE", "repo", PM + "swap/perform_swap.rs", r'pub const MAX_ALLOWED_SLIPPAGE: &str = "([0-9.]+)";', dec, "nat"),
    ("MAX_ASSETS_PER_POOL", "repo", PM + "manager/commands.rs", r"pub const MAX_ASSETS_PER_POOL: usize = " + INT + ";", int, "nat"),
    ("MIN_ASSETS_PER_POOL", "repo", PM + "manager/commands.rs", r"pub const MIN_ASSETS_PER_POOL: usize = " + INT + ";", int, "nat"),
    ("EXPLICIT_POOL_ID_PREFIX", "repo", PM + "manager/commands.rs", r'pub const EXPLICIT_POOL_ID_PREFIX: &str = "([^"]*)";', str, "str"),
    ("AUTO_POOL_ID_PREFIX", "repo", PM + "manager/commands.rs", r'pub const AUTO_POOL_ID_PREFIX: &str = "([^"]*)";', str, "str"),
    ("SINGLE_SIDE_REPLY_ID", "repo", PM + "contract.rs", r"pub const SINGLE_SIDE_LIQUIDITY_PROVISION_REPLY_ID: u64 = " + INT + ";", int, "nat"),
    ("PM_QUERY_MAX_LIMIT", "repo", PM + "queries.rs", r"pub\(crate\) const MAX_LIMIT: u32 = " + INT + ";", int, "nat"),
    ("PM_QUERY_DEFAULT_LIMIT", "repo", PM + "queries.rs", r"const DEFAULT_LIMIT: u32 = " + INT + ";", int, "nat"),
    ("STABLE_D_THRESHOLD_IS_ONE_TOKEN", "repo", PM + "helpers.rs", r"let precision_threshold = (Decimal256::one\(\));", lambda s: 1, "nat"),
    # ---- farm manager
    ("SECONDS_IN_DAY", "repo", FM + "position/helpers.rs", r"const SECONDS_IN_DAY: u64 = " + INT + ";", int, "nat"),
    ("SECONDS_IN_YEAR", "repo", FM + "position/helpers.rs", r"const SECONDS_IN_YEAR: u64 = " + INT + ";", int, "nat"),
    ("AUTO_POSITION_ID_PREFIX", "repo", FM + "position/helpers.rs", r'pub const AUTO_POSITION_ID_PREFIX: &str = "([^"]*)";', str, "str"),
    ("EXPLICIT_POSITION_ID_PREFIX", "repo", FM + "position/helpers.rs", r'pub const EXPLICIT_POSITION_ID_PREFIX: &str = "([^"]*)";', str, "str"),
    ("PENALTY_FEE_SHARE", "repo", FM + "position/helpers.rs", r"pub const PENALTY_FEE_SHARE: Decimal = Decimal::percent\((\d+)\);", pct, "nat"),
    ("MAX_PENALTY_CAP", "repo", FM + "position/helpers.rs", r"const MAX_PENALTY_CAP: Decimal = Decimal::percent\((\d+)\);", pct, "nat"),
    ("WEIGHT_C2_NUM", "repo", FM + "position/helpers.rs", r"unlocking_duration_squared\.checked_mul\(Decimal256::raw\((\d+)\)\)", int, "nat"),
    ("WEIGHT_C2_DEN", "repo", FM + "position/helpers.rs", r"unlocking_duration_mul\.checked_div\(Decimal256::raw\((\d+)\)\)", int, "nat"),
    ("WEIGHT_C1_NUM", "repo", FM + "position/helpers.rs", r"let next_part = unlocking_duration\s*\.checked_mul\(Decimal256::raw\((\d+)\)\)", int, "nat"),
    ("WEIGHT_C1_DEN", "repo", FM + "position/helpers.rs", r"let next_part = unlocking_duration\s*\.checked_mul\(Decimal256::raw\(\d+\)\)\?\s*\.checked_div\(Decimal256::raw\((\d+)\)\)", int, "nat"),
    ("WEIGHT_C0_NUM", "repo", FM + "position/helpers.rs", r"let final_part = Decimal256::from_ratio\((\d+)u64, \d+u64\);", int, "nat"),
    ("WEIGHT_C0_DEN", "repo", FM + "position/helpers.rs", r"let final_part = Decimal256::from_ratio\(\d+u64, (\d+)u64\);", int, "nat"),
    ("MAX_POSITIONS_LIMIT", "repo", FM + "state.rs", r"pub const MAX_POSITIONS_LIMIT: u32 = " + INT + ";", int, "nat"),
    ("MAX_FARMS_LIMIT", "repo", FM + "state.rs", r"pub const MAX_FARMS_LIMIT: u32 = " + INT + ";", int, "nat"),
    ("FM_DEFAULT_LIMIT", "repo", FM + "state.rs", r"const DEFAULT_LIMIT: u32 = " + INT + ";", int, "nat"),
    ("MAX_IDENTIFIER_LENGTH", "repo", FM + "helpers.rs", r"const MAX_IDENTIFIER_LENGTH: usize = " + INT + ";", int, "nat"),
    ("CLOSE_FARMS_ERR_REPLY_CODE", "repo", FM + "contract.rs", r"pub const CLOSE_FARMS_ERR_REPLY_CODE: u64 = " + INT + ";", int, "nat"),
    ("AUTO_FARM_ID_PREFIX", "repo", FM + "farm/mod.rs", r'AUTO_FARM_ID_PREFIX: &str = "([^"]*)";', str, "str"),
    ("EXPLICIT_FARM_ID_PREFIX", "repo", FM + "farm/mod.rs", r'EXPLICIT_FARM_ID_PREFIX: &str = "([^"]*)";', str, "str"),
    # ---- mantra-dex-std (pinned dependency)
    ("DAY_IN_SECONDS", "std", "src/constants.rs", r"pub const DAY_IN_SECONDS: u64 = " + INT + ";", int, "nat"),
    ("MONTH_IN_SECONDS", "std", "src/constants.rs", r"pub const MONTH_IN_SECONDS: u64 = " + INT + ";", int, "nat"),
    ("LP_SYMBOL", "std", "src/constants.rs", r'pub const LP_SYMBOL: &str = "([^"]*)";', str, "str"),
    ("MINIMUM_LIQUIDITY_AMOUNT", "std", "src/lp_common.rs", r"pub const MINIMUM_LIQUIDITY_AMOUNT: Uint128 = Uint128::new\(" + INT + r"\);", int, "nat"),
    ("MIN_FARM_AMOUNT", "std", "src/farm_manager.rs", r"pub const MIN_FARM_AMOUNT: Uint128 = Uint128::new\(" + INT + r"\);", int, "nat"),
    ("DEFAULT_FARM_DURATION", "std", "src/farm_manager.rs", r"pub const DEFAULT_FARM_DURATION: u64 = " + INT + ";", int, "nat"),
    ("FACTORY_MAX_SUBDENOM_SIZE", "std", "src/coin.rs", r"pub const FACTORY_MAX_SUBDENOM_SIZE: usize = " + INT + ";", int, "nat"),
    ("MAX_TOTAL_FEE_PERCENT", "std", "src/fee.rs", r"if total_share > Decimal::percent\((\d+)\)", pct, "nat"),
]

# constants that may legitimately disappear after a `fix:` commit; value when absent
OPTIONAL = {"STABLE_D_THRESHOLD_IS_ONE_TOKEN": 0}


def main():
    global STD
    STD = std_dir()
    vals, missing = {}, []
    for name, root, rel, rx, conv, kind in SPECS:
        path = os.path.join(REPO if root == "repo" else STD, rel)
        try:
            src = open(path).read()
        except OSError:
            missing.append((name, path, "file missing"))
            continue
        m = re.search(rx, src)
        if not m:
            if name in OPTIONAL:
                vals[name] = (OPTIONAL[name], kind)
                continue
            missing.append((name, path, rx))
            continue
        raw = m.group(1)
        v = conv(raw.replace("_", "")) if conv in (int,) else conv(raw)
        vals[name] = (v, kind)
    if missing:
        for name, path, rx in missing:
            print(f"extract_constants: BROKEN-TIE constant {name} not found in {path} (pattern {rx})", file=sys.stderr)
        sys.exit(2)
    lines = [
        "/- GENERATED by tools/extract_constants.py from the Rust sources of /repo's working tree and the",
        "   pinned mantra-dex-std crate.  Do not edit: it is rewritten on every check run. -/",
        "namespace MantraDex.C",
        "",
    ]
    for name, _, _, _, _, _ in SPECS:
        v, kind = vals[name]
        if kind == "nat":
            lines.append(f"def {name} : Nat := {v}")
        else:
            lines.append(f'def {name} : String := "{v}"')
    lines += ["", "end MantraDex.C", ""]
    text = "\n".join(lines)
    os.makedirs(os.path.dirname(OUT), exist_ok=True)
    old = open(OUT).read() if os.path.exists(OUT) else None
    if old != text:
        open(OUT, "w").write(text)
        print("extract_constants: Consts.lean rewritten")
    if "--json" in sys.argv:
        print(json.dumps({k: v[0] for k, v in vals.items()}))


if __name__ == "__main__":
    main()
