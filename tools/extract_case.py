#!/usr/bin/env python3
"""dev helper: find the first case of a history stream whose monitor verdict carries <tag> and
write its lines up to and including the failing monitor line as a corpus/replay file"""
import subprocess, sys
stream, seed, cases, tag, out = sys.argv[1:6]
impl = subprocess.run(["harness/target/release/mdx-harness", stream, "--seed", seed, "--cases", cases], capture_output=True, text=True).stdout
model = subprocess.run(["lean/.lake/build/bin/mdxdrv"], input=impl, capture_output=True, text=True).stdout
il, ml = impl.splitlines(), model.splitlines()
start = 0
for i, (a, b) in enumerate(zip(il, ml)):
    if a.startswith("begin"): start = i
    if " viol " in b and tag in b.rsplit(" viol ", 1)[1].split(","):
        # keep only state-changing lines (drop snaps and other monitor lines), then the failing monitor
        keep = [l for l in il[start:i] if not l.startswith("snap") and not l.startswith("mon_")]
        with open(out, "w") as f:
            f.write(f"# stream={stream}\n# first case with monitor verdict '{tag}' (seed {seed}); state-changing lines only\n")
            for l in keep: f.write(l.split(" => ")[0] + "\n")
            f.write("snap\n")
            f.write(il[i].split(" => ")[0] + "\n")
            f.write("end\n")
        print("written", out, len(keep), "lines; failing:", il[i][:200])
        sys.exit(0)
print("tag not found")
sys.exit(1)
